"""Minimal stand-in for the `grapheme` package; only grapheme.api.slice is used by the repository."""
from . import api  # noqa: F401
from .api import slice  # noqa: F401
