import regex as _regex


def graphemes(string):
    return iter(_regex.findall(r'\X', string))


def slice(string, start=None, end=None):
    if start is None and end is None:
        return string
    return ''.join(_regex.findall(r'\X', string)[start:end])


def length(string, until=None):
    return len(_regex.findall(r'\X', string))
