"""Minimal stand-in for the `datedelta` package (1.x), which is not installable in this sandbox.

Semantics of datedelta 1.x: years are applied first, then months, then days.  When the resulting
day does not exist in the target month, the date rolls FORWARD to the first day of the following
month (Feb 29 + 1 year -> Mar 1; Jan 31 + 1 month -> Mar 1).  Part of the trusted base of /verif.
"""
import calendar
import datetime as _dt


class datedelta:
    __slots__ = ('years', 'months', 'days')

    def __init__(self, years=0, months=0, days=0):
        self.years, self.months, self.days = int(years), int(months), int(days)

    def __repr__(self):
        return 'datedelta(years=%d, months=%d, days=%d)' % (self.years, self.months, self.days)

    def __eq__(self, other):
        return isinstance(other, datedelta) and (self.years, self.months, self.days) == (other.years, other.months, other.days)

    def __hash__(self):
        return hash((self.years, self.months, self.days))

    def __neg__(self):
        return datedelta(-self.years, -self.months, -self.days)

    def __pos__(self):
        return self

    def __add__(self, other):
        if isinstance(other, datedelta):
            return datedelta(self.years + other.years, self.months + other.months, self.days + other.days)
        if isinstance(other, _dt.date):
            return self.__radd__(other)
        return NotImplemented

    def __sub__(self, other):
        if isinstance(other, datedelta):
            return self + (-other)
        return NotImplemented

    def __radd__(self, other):
        if not isinstance(other, _dt.date):
            return NotImplemented
        year = other.year + self.years
        month = other.month
        day = other.day
        rolled = False
        if day > calendar.monthrange(year, month)[1]:
            month, day, rolled = month + 1, 1, True
            if month > 12:
                year, month = year + 1, 1
        total = year * 12 + (month - 1) + self.months
        year, month = divmod(total, 12)
        month += 1
        if day > calendar.monthrange(year, month)[1]:
            month, day = month + 1, 1
            if month > 12:
                year, month = year + 1, 1
        result = other.replace(year=year, month=month, day=day)
        if self.days:
            result = result + _dt.timedelta(days=self.days)
        return result

    def __rsub__(self, other):
        if not isinstance(other, _dt.date):
            return NotImplemented
        return (-self).__radd__(other)


YEAR = datedelta(years=1)
MONTH = datedelta(months=1)
WEEK = datedelta(days=7)
DAY = datedelta(days=1)
