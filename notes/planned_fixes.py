#!/usr/bin/env python3
"""Recipe for the repairs of genuine defects found while writing DESIGN.md (see DESIGN.md section 3).

NOT part of the verification framework.  It records, as exact string replacements, the minimal
source changes that were tried on a scratch copy of Microsoft/Recognizers-Text during the design
phase (with all of them applied, together with regenerated resources, the repository's own spec
suite passes: 14914 passed, 0 failed, F1-F14 together).  Each FIX entry is meant to become ONE separate commit in
/repo whose message starts with "fix:".

usage:  planned_fixes.py <path-to-Python/libraries> [F2 F3 ...]
Line endings are preserved (several repository files use CRLF).
"""
import sys
import os

FIXES = {
    # C01 / C20: str.lower() changes the length of the string for U+0130, shifting every later offset
    'F2': [
        ('recognizers-text/recognizers_text/utilities.py',
         "class QueryProcessor:\n",
         "class QueryProcessor:\n"
         "    @staticmethod\n"
         "    def lower_keep_length(source: str) -> str:\n"
         "        # str.lower() can change the length of a string (e.g. U+0130), which would shift entity offsets\n"
         "        result = source.lower()\n"
         "        if len(result) != len(source):\n"
         "            result = ''.join(c.lower() if len(c.lower()) == 1 else c for c in source)\n"
         "        return result\n"
         "\n"),
        ('recognizers-text/recognizers_text/utilities.py',
         "            result = result.lower()\n",
         "            result = QueryProcessor.lower_keep_length(result)\n"),
        ('recognizers-text/recognizers_text/utilities.py',
         "        str_chars = list(input_str.lower())\n",
         "        str_chars = list(QueryProcessor.lower_keep_length(input_str))\n"),
        ('recognizers-choice/recognizers_choice/choice/extractors.py',
         "from recognizers_text import StringUtility, RegExpUtility\n",
         "from recognizers_text import StringUtility, RegExpUtility\n"
         "from recognizers_text.utilities import QueryProcessor\n"),
        ('recognizers-choice/recognizers_choice/choice/extractors.py',
         "        trimmed_source = source.lower()\n",
         "        trimmed_source = QueryProcessor.lower_keep_length(source)\n"),
    ],
    # C07 / C11: hour 0 is falsy, so '00:30', '0:30', '00:00:01', '0 am' came back with resolution None
    'F3': [
        ('recognizers-date-time/recognizers_date_time/date_time/base_time.py',
         "                if not hour:\n                    return result\n",
         "                if hour is None:\n                    return result\n"),
    ],
    # C08: 'next month' on Jan 31 gave March, 'last month' on Dec 31 gave December (datedelta rolls forward)
    'F4': [
        ('recognizers-date-time/recognizers_date_time/date_time/base_dateperiod.py',
         "                    temp_date = reference + datedelta(months=swift)\n"
         "                    month, year = temp_date.month, temp_date.year\n",
         "                    temp_date = reference.replace(day=1) + datedelta(months=swift)\n"
         "                    month, year = temp_date.month, temp_date.year\n"),
    ],
    # C14: week-of-month TIMEX 'XXXX-01-W02' was formatted as 'XXXX-01-WXX-2', which does not parse back
    'F5': [
        ('datatypes-timex-expression/datatypes_timex_expression/timex_format.py',
         "            return 'XXXX-{}-WXX-{}'.format(TimexDateHelpers.fixed_format_number(timex.month, 2), timex.week_of_month)\n",
         "            return 'XXXX-{}-W{}'.format(TimexDateHelpers.fixed_format_number(timex.month, 2),\n"
         "                                        TimexDateHelpers.fixed_format_number(timex.week_of_month, 2))\n"),
    ],
    # C02: Decimal precision 15 was set only on the importing thread; other threads computed with 28 digits
    'F6': [
        ('recognizers-number/recognizers_number/number/parsers.py',
         "    def parse(self, source: ExtractResult) -> Optional[ParseResult]:\n"
         "        # Check if the parser is configured",
         "    @precision(prec=15)\n"
         "    def parse(self, source: ExtractResult) -> Optional[ParseResult]:\n"
         "        # Check if the parser is configured"),
        ('recognizers-number/recognizers_number/number/cjk_parsers.py',
         "from recognizers_number.culture import CultureInfo\n",
         "from recognizers_number.culture import CultureInfo\n"
         "from recognizers_number.number.utilities import precision\n"),
        ('recognizers-number/recognizers_number/number/cjk_parsers.py',
         "    def parse(self, source: ExtractResult) -> Optional[ParseResult]:\n"
         "        result: ParseResult\n",
         "    @precision(prec=15)\n"
         "    def parse(self, source: ExtractResult) -> Optional[ParseResult]:\n"
         "        result: ParseResult\n"),
    ],
    # C15: month 12 resolved to the range [YYYY-12-01, YYYY-13-01)
    'F7': [
        ('datatypes-timex-expression/datatypes_timex_expression/timex_resolver.py',
         "        return TimexValue.date_value(Timex(year=year, month=month, day_of_month=1)), "
         "TimexValue.date_value(Timex(year=year, month=month + 1, day_of_month=1))\n",
         "        end_year, end_month = (year + 1, 1) if month == 12 else (year, month + 1)\n"
         "        return TimexValue.date_value(Timex(year=year, month=month, day_of_month=1)), "
         "TimexValue.date_value(Timex(year=end_year, month=end_month, day_of_month=1))\n"),
    ],
    # C15: a 'YYYY-12' date-range constraint raised ValueError('month must be in 1..12')
    'F8': [
        ('datatypes-timex-expression/datatypes_timex_expression/timex_helpers.py',
         "                    result.end.year = timex.year\n"
         "                    result.end.month = timex.month + 1\n",
         "                    result.end.year = timex.year + 1 if timex.month == 12 else timex.year\n"
         "                    result.end.month = 1 if timex.month == 12 else timex.month + 1\n"),
    ],
    # C15: TimexRangeResolver.evaluate never returned for >= 3 date ranges whose overlapping pair is not
    # the first two (e.g. ['2019', '2020', '2019-03']): 'del ranges[i:1]' is a mistranslated RemoveRange(i, 1)
    'F9': [
        ('datatypes-timex-expression/datatypes_timex_expression/timex_constraints_helper.py',
         "                    del ranges[i:1]\n"
         "                    del ranges[j-1:1]\n",
         "                    del ranges[i]\n"
         "                    del ranges[j - 1]\n"),
    ],
    # C15: a pure time candidate evaluated against date-range constraints came back as the empty TIMEX ''
    'F10': [
        ('datatypes-timex-expression/datatypes_timex_expression/timex_range_resolver.py',
         "                result.append(t.timex_value())\n"
         "            return result\n"
         "\n"
         "        return ['']\n",
         "                result.append(t.timex_value())\n"
         "            return result\n"
         "\n"
         "        return []\n"),
    ],
    # C04: a number phrase that starts with a bare round word ("mille cent" = 1100, "millecento", "duizend
    # honderd") was multiplied instead of added (-> 100000), and a bare hundred after a thousand group was
    # dropped ("cinq mille cent cinquante" -> 5050): the end-word scan skipped index 0 and an empty
    # multiplier slice evaluated to 0 instead of 1
    'F11': [
        ('recognizers-number/recognizers_number/number/parsers.py',
         "        for i in range(len(matches) - 1, 0, -1):\n",
         "        for i in range(len(matches) - 1, -1, -1):\n"),
        ('recognizers-number/recognizers_number/number/parsers.py',
         "                    if i != 0:\n"
         "                        part_value = self.__get_int_value(\n"
         "                            matches[last_index:i])\n",
         "                    if i != last_index:\n"
         "                        part_value = self.__get_int_value(\n"
         "                            matches[last_index:i])\n"),
    ],
    # C03: '-516,292' resolved to -516.292 while '516,292' resolves to 516292 (en-us, es-es, fr-fr): the
    # leading sign was counted as a digit position by the single-separator heuristic
    'F12': [
        ('recognizers-number/recognizers_number/number/parsers.py',
         "        call_stack: List[Decimal] = list()\n"
         "\n"
         "        for i, c in enumerate(digits_str):\n",
         "        call_stack: List[Decimal] = list()\n"
         "        # a leading sign must not count as a digit position\n"
         "        sign_offset = 1 if digits_str.startswith('-') else 0\n"
         "\n"
         "        for i, c in enumerate(digits_str):\n"),
        ('recognizers-number/recognizers_number/number/parsers.py',
         "                c, str_length - i, i, has_single_separator, prev_char, non_decimal_separator)\n",
         "                c, str_length - i, i - sign_offset, has_single_separator, prev_char, non_decimal_separator)\n"),
    ],
    # C01/C12 (zh-cn date-time): ChineseMergedExtractor.add_mod widened entities whenever a modifier word
    # occurred ANYWHERE later in the text (ConditionalMatch objects are always truthy; .success was never
    # checked) and rebuilt the text with the length used as END index -> negative starts, ends beyond the
    # query, empty or shifted texts, overlapping entities (205 deviations in 11,000 noise calls, 12 corpus inputs)
    'F13': [
        ('recognizers-date-time/recognizers_date_time/date_time/chinese/merged_extractor.py',
         "            if match:\n", "            if match and match.success:\n", 6),
        ('recognizers-date-time/recognizers_date_time/date_time/chinese/merged_extractor.py',
         "source[extract_result.start:extract_result.length + 1]",
         "source[extract_result.start:extract_result.start + extract_result.length]", 2),
        ('recognizers-date-time/recognizers_date_time/date_time/chinese/merged_extractor.py',
         "source[extract_result.start:extract_result.length]",
         "source[extract_result.start:extract_result.start + extract_result.length]", 4),
    ],
    # C11 (zh-cn): a 24-hour time without day description got the am/pm comment, so the merged parser
    # added 12 hours: '十五点七' -> values 15:07:00 and 27:07:00
    'F14': [
        ('recognizers-date-time/recognizers_date_time/date_time/chinese/time_parser.py',
         "        if no_desc:\n"
         "            result.comment = 'ampm'\n",
         "        if no_desc:\n"
         "            if 0 < time_result.hour <= 12:\n"
         "                result.comment = 'ampm'\n"),
    ],
}
# F1 (C18/C19) is not a text replacement: run the repository's own resource generator
# (Python/libraries/resource-generator/index.py, ruamel.yaml) for the five packages and commit the
# ten regenerated modules that differ.
# FX (compare calendar days in DateUtils.generate_dates) was tried and REJECTED: it breaks six cases of
# Specs/DateTime/English/DateTimeModel.json ("Friday 7/6" with reference 2018-07-06T12:00:00), i.e. C19.


def apply(root, names):
    for name in names:
        for entry in FIXES[name]:
            rel, old, new = entry[:3]
            expected = entry[3] if len(entry) > 3 else 1
            path = os.path.join(root, rel)
            with open(path, encoding='utf-8', newline='') as f:
                text = f.read()
            eol = '\r\n' if '\r\n' in text else '\n'
            o, n = old.replace('\n', eol), new.replace('\n', eol)
            if text.count(o) != expected:
                raise SystemExit(f'{name}: expected {expected} occurrence(s) in {rel}, found {text.count(o)}')
            with open(path, 'w', encoding='utf-8', newline='') as f:
                f.write(text.replace(o, n))
        print('applied', name)


if __name__ == '__main__':
    apply(sys.argv[1], sys.argv[2:] or sorted(FIXES, key=lambda k: int(k[1:])))
