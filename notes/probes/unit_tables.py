"""Design-phase probe (C05): every prefix/suffix table spelling of every registered unit model."""
from recognizers_number_with_unit.number_with_unit.number_with_unit_recognizer import NumberWithUnitRecognizer
from collections import Counter, defaultdict
import json, sys
cultures = ['en-us', 'es-es', 'es-mx', 'fr-fr', 'pt-br', 'de-de', 'it-it', 'nl-nl', 'zh-cn', 'ja-jp']
types = ['currency', 'dimension', 'temperature', 'age']
tot = Counter(); bad = Counter(); ex = defaultdict(list); allbad = []
for c in cultures:
    R = NumberWithUnitRecognizer(c)
    for t in types:
        try:
            m = getattr(R, f'get_{t}_model')(c, False)
        except ValueError:
            continue
        ep = m.extractor_parser[0]
        cfg = ep.extractor.config; pcfg = ep.parser.config
        amb = set(cfg.ambiguous_unit_list or [])
        cjk = c in ('zh-cn', 'ja-jp')
        for kind, tbl in (('suffix', cfg.suffix_list), ('prefix', cfg.prefix_list)):
            seen = {}
            for unit, forms in (tbl or {}).items():
                for f in forms.split('|'):
                    if not f or f.isspace():
                        continue
                    first = seen.setdefault(f, unit)       # first-wins binding
                    q = f'5 {f}' if kind == 'suffix' else f'{f} 5'
                    r = m.parse(q)
                    key = (c, t, kind); tot[key] += 1
                    ok = len(r) == 1 and r[0].start == 0 and r[0].end == len(q) - 1 and r[0].resolution.get('unit') == first and r[0].resolution.get('value') == '5'
                    if not ok:
                        if f in amb: cls = 'ambiguous-list'
                        elif f != f.lower(): cls = 'has-uppercase'
                        elif f != f.strip() or '  ' in f: cls = 'extra-blank'
                        elif first != unit: cls = 'duplicate-spelling'
                        elif not any(ch.isalnum() for ch in f[-1:]) or not f[0].isalnum(): cls = 'punct-edge'
                        else: cls = 'other'
                        bad[key + (cls,)] += 1
                        allbad.append((c, t, kind, f, unit, cls, [(x.text, x.resolution) for x in r]))
                        if len(ex[key + (cls,)]) < 3: ex[key + (cls,)].append((q, [(x.text, x.resolution) for x in r]))
print('entries', sum(tot.values()), 'failing', len(allbad))
print(Counter(b[5] for b in allbad))
for k in tot:
    print(k, tot[k], {kk[3]: v for kk, v in bad.items() if kk[:3] == k})
for k, v in ex.items():
    if k[3] == 'other':
        print(k)
        for e in v: print('    ', e)
if len(sys.argv) > 1:
    json.dump(allbad, open(sys.argv[1], 'w'), ensure_ascii=False, indent=0, default=str)
