"""Design-phase probe: digit literals per culture (C03).  Prints pass/fail per (culture, form, #int digits)."""
import sys, random, collections
from decimal import Decimal, Context, ROUND_HALF_EVEN
from recognizers_number.number.number_recognizer import NumberRecognizer
# culture -> (grouping mark, decimal mark) of its own convention
CONV = {'en-us': (',', '.'), 'es-mx': (',', '.'), 'zh-cn': (',', '.'), 'ja-jp': (',', '.'),
        'es-es': ('.', ','), 'fr-fr': ('.', ','), 'pt-br': ('.', ','), 'de-de': ('.', ','),
        'it-it': ('.', ','), 'nl-nl': ('.', ',')}
C15 = Context(prec=15, rounding=ROUND_HALF_EVEN)


def group(s, mark):
    out = []
    while len(s) > 3:
        out.insert(0, s[-3:]); s = s[:-3]
    out.insert(0, s)
    return mark.join(out)


def expected(int_s, frac_s, neg):
    d = Decimal(('-' if neg else '') + int_s + ('.' + frac_s if frac_s else ''))
    return C15.plus(d)


def parse_value(v, dec):
    v = v.replace(dec, '.') if dec != '.' else v
    return Decimal(v)


def main():
    random.seed(1)
    for c, (th, dec) in CONV.items():
        R = NumberRecognizer(c); m = R.get_number_model(c, False); pm = R.get_percentage_model(c, False)
        res = collections.defaultdict(lambda: [0, 0, None])
        for nd in range(1, 16):
            for rep in range(12):
                int_s = str(random.randint(10 ** (nd - 1) if nd > 1 else 0, 10 ** nd - 1))
                for fd in (0, 1, 2, 3, 6):
                    frac = ''.join(random.choice('0123456789') for _ in range(fd))
                    if nd + fd > 15: continue
                    for form in ('plain', 'grouped'):
                        if form == 'grouped' and nd < 4: continue
                        for neg in (False, True):
                            lit = ('-' if neg else '') + (group(int_s, th) if form == 'grouped' else int_s) + (dec + frac if fd else '')
                            exp = expected(int_s, frac, neg)
                            for carrier in ('{}', 'x {} y'):
                                q = carrier.format(lit); st = q.index(lit)
                                r = m.parse(q)
                                ok = len(r) == 1 and r[0].start == st and r[0].end == st + len(lit) - 1
                                if ok:
                                    try: ok = parse_value(r[0].resolution['value'], dec) == exp
                                    except Exception: ok = False
                                key = (form + ('+dec' if fd else ''), 'neg' if neg else 'pos', nd if nd < 5 else '5+' if nd < 10 else '10+', 'alone' if carrier == '{}' else 'carrier')
                                res[key][0] += 1
                                if not ok:
                                    res[key][1] += 1
                                    res[key][2] = res[key][2] or (q, [(x.text, x.resolution['value']) for x in r])
                            # percentage
                            q = lit + '%'
                            r = pm.parse(q)
                            ok = len(r) == 1 and r[0].start == 0 and r[0].end == len(q) - 1 and r[0].resolution['value'].endswith('%')
                            if ok:
                                try: ok = parse_value(r[0].resolution['value'][:-1], dec) == exp
                                except Exception: ok = False
                            key = ('pct ' + form + ('+dec' if fd else ''), 'neg' if neg else 'pos', nd if nd < 5 else '5+' if nd < 10 else '10+', 'alone')
                            res[key][0] += 1
                            if not ok:
                                res[key][1] += 1
                                res[key][2] = res[key][2] or (q, [(x.text, x.resolution['value']) for x in r])
        print('==', c, 'total', sum(v[0] for v in res.values()), 'bad', sum(v[1] for v in res.values()))
        for k, v in sorted(res.items(), key=str):
            if v[1]: print('   ', k, f'{v[1]}/{v[0]}', v[2])


main()
