"""Design-phase probe (C08, C09): English relative expressions and year-less dates vs stdlib calendar arithmetic."""
import datetime, random
from datetime import timedelta as TD
from collections import Counter, defaultdict
from recognizers_date_time.date_time.date_time_recognizer import DateTimeRecognizer
m = DateTimeRecognizer('en-us').get_datetime_model('en-us', False)
random.seed(7)
refs = [datetime.datetime(2016, 11, 7, 8, 30), datetime.datetime(2016, 2, 29, 0, 0), datetime.datetime(2019, 12, 31, 23, 59, 59), datetime.datetime(2020, 1, 1),
        datetime.datetime(2021, 1, 3, 12), datetime.datetime(2020, 12, 31, 12), datetime.datetime(2015, 12, 28), datetime.datetime(2024, 1, 31, 9),
        datetime.datetime(2023, 3, 31), datetime.datetime(2023, 10, 31), datetime.datetime(2023, 5, 31, 7), datetime.datetime(2024, 3, 30, 7), datetime.datetime(2023, 3, 29)]
for _ in range(150):
    y = random.randint(1950, 2090); mo = random.randint(1, 12)
    import calendar
    refs.append(datetime.datetime(y, mo, random.randint(1, calendar.monthrange(y, mo)[1]), random.randint(0, 23), random.randint(0, 59)))
WD = ['monday', 'tuesday', 'wednesday', 'thursday', 'friday', 'saturday', 'sunday']
MON = ['January', 'February', 'March', 'April', 'May', 'June', 'July', 'August', 'September', 'October', 'November', 'December']
bad = Counter(); tot = Counter(); ex = defaultdict(list)
def check(name, q, R, pred):
    r = m.parse(q, R); tot[name] += 1
    ok = len(r) == 1 and r[0].start == 0 and r[0].end == len(q) - 1 and r[0].resolution is not None and pred(r[0])
    if not ok:
        bad[name] += 1
        if len(ex[name]) < 3: ex[name].append((q, str(R), R.strftime('%a'), [(x.text, x.type_name, x.resolution) for x in r]))
def is_date_tx(d): return lambda e: e.type_name == 'datetimeV2.date' and [(v['timex'], v['type'], v['value']) for v in e.resolution['values']] == [(d.isoformat(), 'date', d.isoformat())]
def is_range(a, b, tx): return lambda e: e.type_name == 'datetimeV2.daterange' and [(v['timex'], v['type'], v['start'], v['end']) for v in e.resolution['values']] == [(tx, 'daterange', a.isoformat(), b.isoformat())]
def monday(d): return d - TD(days=d.weekday())
def addm(y, mo, k):
    i = y * 12 + mo - 1 + k; return i // 12, i % 12 + 1
def occ(mo, da, R):
    d = R.date(); past = fut = None
    for yy in range(d.year, d.year - 9, -1):
        try: c = datetime.date(yy, mo, da)
        except ValueError: continue
        if c < d: past = c; break
    for yy in range(d.year, d.year + 9):
        try: c = datetime.date(yy, mo, da)
        except ValueError: continue
        if c >= d: fut = c; break
    return past, fut
for R in refs:
    d = R.date()
    check('today', 'today', R, is_date_tx(d)); check('tomorrow', 'tomorrow', R, is_date_tx(d + TD(1))); check('yesterday', 'yesterday', R, is_date_tx(d - TD(1)))
    for N in (1, 2, 7, 30, 31, 365, 366, 1000, 5000):
        check('N days ago', f'{N} days ago', R, is_date_tx(d - TD(N))); check('in N days', f'in {N} days', R, is_date_tx(d + TD(N)))
        check('N days from now', f'{N} days from now', R, is_date_tx(d + TD(N)))
        check('N weeks ago', f'{N} weeks ago', R, is_date_tx(d - TD(7 * N))); check('in N weeks', f'in {N} weeks', R, is_date_tx(d + TD(7 * N)))
    for i, w in enumerate(WD):
        check('next wd', f'next {w}', R, is_date_tx(monday(d) + TD(7 + i))); check('last wd', f'last {w}', R, is_date_tx(monday(d) + TD(-7 + i)))
        check('this wd', f'this {w}', R, is_date_tx(monday(d) + TD(i)))
    for k, w in ((0, 'this'), (1, 'next'), (-1, 'last')):
        mo_ = monday(d) + TD(7 * k); iso = (mo_ + TD(3)).isocalendar()
        check(f'{w} week', f'{w} week', R, is_range(mo_, mo_ + TD(7), f'{iso[0]}-W{iso[1]:02}'))
        y, mm = addm(d.year, d.month, k); y2, mm2 = addm(y, mm, 1)
        check(f'{w} month', f'{w} month', R, is_range(datetime.date(y, mm, 1), datetime.date(y2, mm2, 1), f'{y}-{mm:02}'))
        check(f'{w} year', f'{w} year', R, is_range(datetime.date(d.year + k, 1, 1), datetime.date(d.year + k + 1, 1, 1), f'{d.year + k}'))
    r = m.parse('now', R); tot['now'] += 1
    if not (len(r) == 1 and r[0].resolution['values'] == [{'timex': 'PRESENT_REF', 'type': 'datetime', 'value': R.strftime('%Y-%m-%d %H:%M:%S')}]): bad['now'] += 1
    # C09
    nx = d + TD(1); pv = d - TD(1)
    for mo, da in [(1, 1), (2, 28), (2, 29), (3, 1), (12, 31), (7, 4), (R.month, R.day), (nx.month, nx.day), (pv.month, pv.day)]:
        past, fut = occ(mo, da, R); tx = f'XXXX-{mo:02}-{da:02}'
        sameday_nonmidnight = (mo, da) == (R.month, R.day) and R.time() != datetime.time(0, 0)
        for name, q in (('Month d', f'{MON[mo - 1]} {da}'), ('m/d', f'{mo}/{da}'), ('d Month', f'{da} {MON[mo - 1]}')):
            nm = 'C09 ' + name + (' [same day, non-midnight ref]' if sameday_nonmidnight else '')
            check(nm, q, R, lambda e, tx=tx, past=past, fut=fut: e.type_name == 'datetimeV2.date' and [(v['timex'], v['value']) for v in e.resolution['values']] == [(tx, past.isoformat()), (tx, fut.isoformat())])
    for i, w in enumerate(WD):
        fut = d + TD((i - d.weekday()) % 7); past = fut - TD(7); tx = f'XXXX-WXX-{i + 1}'
        check('C09 weekday', w, R, lambda e, tx=tx, past=past, fut=fut: e.type_name == 'datetimeV2.date' and [(v['timex'], v['value']) for v in e.resolution['values']] == [(tx, past.isoformat()), (tx, fut.isoformat())])
print('references', len(refs))
for k in sorted(tot): print(f'{k:45} {tot[k]:6} bad {bad[k]:4}', ex[k][:1] if bad[k] else '')
