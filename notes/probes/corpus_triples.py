"""Design-phase probe (C10 corpus clause, C11 under other references): date-time model on supported inputs."""
import json, glob, sys, datetime, re, random, calendar
from collections import Counter, defaultdict
sys.path.insert(0, '/verif/notes/probes')
from recognizers_date_time.date_time.date_time_recognizer import DateTimeRecognizer
CUL = {'Chinese': 'zh-cn', 'Dutch': 'nl-nl', 'English': 'en-us', 'French': 'fr-fr', 'Italian': 'it-it', 'Portuguese': 'pt-br', 'Spanish': 'es-es', 'German': 'de-de'}
DUR = re.compile(r'^P(?:(\d+(?:\.\d+)?)Y)?(?:(\d+(?:\.\d+)?)M)?(?:(\d+(?:\.\d+)?)W)?(?:(\d+(?:\.\d+)?)D)?(?:T(?:(\d+(?:\.\d+)?)H)?(?:(\d+(?:\.\d+)?)M)?(?:(\d+(?:\.\d+)?)S)?)?$')
D = re.compile(r'^\d{4}-\d{2}-\d{2}$'); DTT = re.compile(r'^\d{4}-\d{2}-\d{2}T\d{2}(:\d{2}(:\d{2})?)?$'); T = re.compile(r'^T\d{2}(:\d{2}(:\d{2})?)?$')
def pd(s): return datetime.date.fromisoformat(s)
def pdt(s): return datetime.datetime.strptime(s, '%Y-%m-%d %H:%M:%S')
def ptx(s):
    d, t = s.split('T'); parts = (t.split(':') + ['00', '00'])[:3]
    return datetime.datetime.fromisoformat(d) + datetime.timedelta(hours=int(parts[0]), minutes=int(parts[1]), seconds=int(parts[2]))
def supported(s):
    return not (('NotSupported' in s and 'python' in s['NotSupported']) or ('NotSupportedByDesign' in s and 'python' in s['NotSupportedByDesign']))
def triple(v):
    tx = v.get('timex', ''); m = re.match(r'^\(([^,]+),([^,]+),([^,]+)\)$', tx)
    if not m or 'start' not in v or 'end' not in v: return None
    a, b, d = m.groups(); dm = DUR.match(d)
    try:
        if D.match(a) and D.match(b):
            if (a, b) != (v['start'], v['end']): return 'TRIPLE-ENDS'
            if not dm: return 'TRIPLE-DURFMT'
            if dm.group(1) or dm.group(2): return None   # calendar units: skipped in the probe
            days = float(dm.group(3) or 0) * 7 + float(dm.group(4) or 0)
            return None if (pd(b) - pd(a)).days == days else 'TRIPLE-DUR'
        if DTT.match(a) and DTT.match(b):
            if (ptx(a), ptx(b)) != (pdt(v['start']), pdt(v['end'])): return 'TRIPLE-ENDS'
            if not dm: return 'TRIPLE-DURFMT'
            if dm.group(1) or dm.group(2): return None
            secs = float(dm.group(3) or 0) * 604800 + float(dm.group(4) or 0) * 86400 + float(dm.group(5) or 0) * 3600 + float(dm.group(6) or 0) * 60 + float(dm.group(7) or 0)
            return None if (pdt(v['end']) - pdt(v['start'])).total_seconds() == secs else 'TRIPLE-DUR'
        if T.match(a) and T.match(b):
            if not dm: return 'TRIPLE-DURFMT'
            secs = float(dm.group(5) or 0) * 3600 + float(dm.group(6) or 0) * 60 + float(dm.group(7) or 0)
            s0 = datetime.datetime.strptime(v['start'], '%H:%M:%S'); s1 = datetime.datetime.strptime(v['end'], '%H:%M:%S')
            return None if (s1 - s0).total_seconds() % 86400 == secs % 86400 else 'TRIPLE-DUR-T'
    except Exception as e:
        return 'TRIPLE-EXC:' + type(e).__name__
    return None
def main():
    c = sys.argv[1]; mode = sys.argv[2]   # spec | rand
    lang = [k for k, v in CUL.items() if v == c][0]
    m = DateTimeRecognizer(c).get_datetime_model(c, False)
    from corpus_invariants import shape  # noqa
    random.seed(5); seen = set(); viol = []; n = 0; ranges = 0
    for f in glob.glob(f'/repo/Specs/DateTime/{lang}/*.json'):
        for s in json.load(open(f, encoding='utf-8-sig')):
            if 'Input' not in s or not supported(s): continue
            rd = (s.get('Context') or {}).get('ReferenceDateTime')
            refs = [datetime.datetime.fromisoformat(rd[:19]) if rd else datetime.datetime(2016, 11, 7)]
            if mode == 'rand':
                refs = []
                for _ in range(2):
                    y, mo = random.randint(1950, 2090), random.randint(1, 12)
                    last = calendar.monthrange(y, mo)[1]
                    refs.append(datetime.datetime(y, mo, random.choice([1, 15, last - 1, last]), random.randint(0, 23), random.randint(0, 59)))
            for R in refs:
                if (s['Input'], R) in seen: continue
                seen.add((s['Input'], R)); n += 1
                for r in m.parse(s['Input'], R):
                    if not r.resolution: continue
                    for v in r.resolution.get('values') or []:
                        k = triple(v)
                        if v.get('timex', '').startswith('('): ranges += 1
                        if k: viol.append((k, s['Input'], str(R), v))
                        if mode == 'rand':
                            k2 = shape(v.get('type'), v)
                            if k2: viol.append((k2, s['Input'], str(R), v))
    print(c, mode, 'calls', n, 'triples', ranges, Counter(v[0] for v in viol))
    for v in viol[:12]: print('    ', str(v)[:230])
if __name__ == '__main__':
    main()
