"""Design-phase probe (not framework code): apply every model of a culture to every Python-supported
Specs input of that culture and report span / text / overlap / date-time shape deviations.
usage: PYTHONPATH=<shims>:<libs...> python corpus_invariants.py <culture> <out.json>"""
import json, glob, sys, datetime, re
from collections import Counter, defaultdict
from recognizers_number.number.number_recognizer import NumberRecognizer
from recognizers_number_with_unit.number_with_unit.number_with_unit_recognizer import NumberWithUnitRecognizer
from recognizers_date_time.date_time.date_time_recognizer import DateTimeRecognizer
from recognizers_sequence.sequence.sequence_recognizer import SequenceRecognizer
from recognizers_choice.choice.recognizers_choice import ChoiceRecognizer

CUL = {'Chinese': 'zh-cn', 'Dutch': 'nl-nl', 'English': 'en-us', 'French': 'fr-fr', 'Italian': 'it-it',
       'Japanese': 'ja-jp', 'Korean': 'ko-kr', 'Portuguese': 'pt-br', 'Spanish': 'es-es',
       'SpanishMexican': 'es-mx', 'Turkish': 'tr-tr', 'German': 'de-de'}
FW = dict(zip('０１２３４５６７８９：－，／ＧＭＴＫｋ．（）％、', '0123456789:-,/GMTKk.()%,'))


def norm(s):
    return ''.join((lambda c: c.lower() if len(c.lower()) == 1 else c)(FW.get(c, c)) for c in s)


def supported(s):
    return not (('NotSupported' in s and 'python' in s['NotSupported']) or
                ('NotSupportedByDesign' in s and 'python' in s['NotSupportedByDesign']))


def load(culture):
    out = {}
    for f in glob.glob('/repo/Specs/*/*/*.json'):
        lang = f.split('/')[4]
        if CUL.get(lang) != culture:
            continue
        for s in json.load(open(f, encoding='utf-8-sig')):
            if 'Input' in s and supported(s):
                rd = (s.get('Context') or {}).get('ReferenceDateTime')
                ref = rd[:19] if rd else '2016-11-07T00:00:00'
                out.setdefault(s['Input'], ref)
    return out


def models(c):
    out = {}
    for R, names in ((NumberRecognizer, ['number', 'ordinal', 'percentage']),
                     (NumberWithUnitRecognizer, ['age', 'currency', 'dimension', 'temperature']),
                     (DateTimeRecognizer, ['datetime']),
                     (SequenceRecognizer, ['phone_number', 'ip_address', 'mention', 'hashtag', 'email', 'url', 'guid']),
                     (ChoiceRecognizer, ['boolean'])):
        r = R(c)
        for n in names:
            try:
                out[n] = getattr(r, f'get_{n}_model')(c, False)
            except ValueError:
                pass
    return out


DATE = re.compile(r'^\d{4}-\d{2}-\d{2}$'); TIME = re.compile(r'^\d{2}:\d{2}:\d{2}$')
DT = re.compile(r'^\d{4}-\d{2}-\d{2} \d{2}:\d{2}:\d{2}$')


def shape(t, v):
    def okd(x): return bool(DATE.match(x)) and bool(datetime.date.fromisoformat(x))
    def okt(x): return bool(TIME.match(x)) and int(x[:2]) < 24 and int(x[3:5]) < 60 and int(x[6:]) < 60
    def okdt(x): return bool(DT.match(x)) and okd(x[:10]) and okt(x[11:])
    try:
        if v.get('value') == 'not resolved':
            return None
        if t == 'date': return None if okd(v['value']) else 'BADDATE'
        if t == 'time': return None if okt(v['value']) else 'BADTIME'
        if t == 'datetime': return None if okdt(v['value']) else 'BADDATETIME'
        if t == 'duration': float(v['value']); return None
        if t in ('daterange', 'timerange', 'datetimerange'):
            f = {'daterange': okd, 'timerange': okt, 'datetimerange': okdt}[t]
            for k in ('start', 'end'):
                if k in v and not (isinstance(v[k], str) and f(v[k])): return 'BAD' + k.upper()
            if 'start' not in v and 'end' not in v: return 'RANGE-NOENDS'
            if t == 'daterange' and 'start' in v and 'end' in v and not v['start'] < v['end']: return 'DATERANGE-ORDER'
            return None
        if t == 'set': return None
        return 'UNKTYPE'
    except Exception as e:
        return 'SHAPE-EXC:' + type(e).__name__


def main():
    c, outp = sys.argv[1], sys.argv[2]
    qs = load(c); ms = models(c)
    viol = []; calls = 0; ents = 0
    for q, ref in sorted(qs.items()):
        R = datetime.datetime.fromisoformat(ref)
        nq = norm(q)
        assert len(nq) == len(q)
        for n, m in ms.items():
            calls += 1
            try:
                rs = m.parse(q, R) if n == 'datetime' else m.parse(q)
            except Exception as e:
                viol.append(('EXC', n, q, ref, repr(e))); continue
            spans = []
            for r in rs:
                ents += 1
                if not (isinstance(r.start, int) and isinstance(r.end, int) and 0 <= r.start <= r.end < len(q)):
                    viol.append(('RANGE', n, q, ref, [r.text, r.start, r.end])); continue
                if nq[r.start:r.end + 1].strip() != norm(r.text).strip():
                    viol.append(('TEXT', n, q, ref, [r.text, r.start, r.end, nq[r.start:r.end + 1]]))
                spans.append((r.start, r.end, r.text))
                if n == 'datetime' and r.resolution is not None:
                    tn = r.type_name.split('.')[-1]
                    for v in r.resolution.get('values') or []:
                        if v.get('type') != tn: viol.append(('TYPEMISMATCH', n, q, ref, [r.type_name, v]))
                        k = shape(v.get('type'), v)
                        if k: viol.append((k, n, q, ref, v))
            spans.sort()
            for a, b in zip(spans, spans[1:]):
                if b[0] <= a[1]: viol.append(('OVERLAP', n, q, ref, [a, b]))
    json.dump({'culture': c, 'inputs': len(qs), 'calls': calls, 'entities': ents, 'violations': viol},
              open(outp, 'w'), ensure_ascii=False, indent=0, default=str)
    print(c, len(qs), calls, ents, Counter((v[0], v[1]) for v in viol))


if __name__ == "__main__":
    main()
