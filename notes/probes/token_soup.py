"""Design-phase probe (C01/C12 on noise): token soup from the words of supported spec inputs."""
import json, glob, random, sys, datetime
from collections import Counter, defaultdict
sys.path.insert(0, '/verif/notes/probes')
from corpus_invariants import models, norm, supported, CUL
c = sys.argv[1]; N = int(sys.argv[2])
lang = [k for k, v in CUL.items() if v == c][0]
words = set()
for f in glob.glob(f'/repo/Specs/*/{lang}/*.json'):
    for s in json.load(open(f, encoding='utf-8-sig')):
        if 'Input' in s and supported(s):
            words.update(s['Input'].split())
words = sorted(words)
extra = ['5', '12', '2016', '3.5', '1,000', '30%', '$', '-', '/', ':', '.', ',', '(', ')', '１２', '：', '％', '、', '五', '十', '月', '日', 'İ', 'ß', 'ǅ', '１０：３０']
ms = models(c)
random.seed(11)
viol = Counter(); ex = defaultdict(list)
ref = datetime.datetime(2016, 11, 7, 12)
cjk = c in ('zh-cn', 'ja-jp')
calls = 0
for i in range(N):
    k = random.randint(1, 9)
    toks = [random.choice(words) if random.random() < 0.7 else random.choice(extra) for _ in range(k)]
    q = ('' if (cjk and random.random() < 0.6) else ' ').join(toks)
    nq = norm(q)
    for n, m in ms.items():
        calls += 1
        try:
            rs = m.parse(q, ref) if n == 'datetime' else m.parse(q)
        except Exception as e:
            viol['EXC', n] += 1; ex['EXC', n].append((q, repr(e))); continue
        spans = []
        for r in rs:
            if not (isinstance(r.start, int) and isinstance(r.end, int) and 0 <= r.start <= r.end < len(q)):
                viol['RANGE', n] += 1; ex['RANGE', n].append((q, r.text, r.start, r.end)); continue
            if nq[r.start:r.end + 1].strip() != norm(r.text).strip():
                viol['TEXT', n] += 1; ex['TEXT', n].append((q, r.text, r.start, r.end, nq[r.start:r.end + 1]))
            spans.append((r.start, r.end, r.text))
        spans.sort()
        for a, b in zip(spans, spans[1:]):
            if b[0] <= a[1]:
                viol['OVERLAP', n] += 1; ex['OVERLAP', n].append((q, a, b))
print(c, 'strings', N, 'calls', calls, dict(viol))
for k, v in ex.items():
    print('  ', k)
    for e in v[:4]: print('      ', str(e)[:220])
