"""pytest plugin used by check C19: records, for every executed spec case, the node id, the outcome and whether the case
expects at least one entity (non-trivial).  One JSON line per test, one file per (xdist) process."""
import json
import os
import threading

import pytest

_OUT = os.environ.get('VRF_C19_OUT')
_fh = None


def _write(rec):
    global _fh
    if not _OUT:
        return
    if _fh is None:
        _fh = open('%s.%d' % (_OUT, os.getpid()), 'a', encoding='utf-8')
    _fh.write(json.dumps(rec, ensure_ascii=False) + '\n')
    _fh.flush()


@pytest.hookimpl(hookwrapper=True)
def pytest_runtest_makereport(item, call):
    outcome = yield
    rep = outcome.get_result()
    if rep.when == 'call' or (rep.when == 'setup' and rep.outcome != 'passed'):
        params = getattr(getattr(item, 'callspec', None), 'params', {}) or {}
        exp = params.get('expected_results')
        rec = {'nodeid': item.nodeid, 'outcome': rep.outcome, 'when': rep.when,
               'nontrivial': bool(exp) if exp is not None else True,
               'input': params.get('source'), 'culture': params.get('culture'), 'model': params.get('model')}
        if rep.outcome == 'failed':
            rec['longrepr'] = str(rep.longrepr)[-1500:]
        _write(rec)


@pytest.hookimpl(tryfirst=True)
def pytest_pyfunc_call(pyfuncitem):
    """VRF_C19_THREAD=1: every spec case is executed on a fresh thread (as a request handler of a threaded server would): thread-local
    defaults (decimal context ...) are then those of a new thread, not those the importing thread was left with"""
    if not os.environ.get('VRF_C19_THREAD'):
        return None
    fn = pyfuncitem.obj
    args = {a: pyfuncitem.funcargs[a] for a in pyfuncitem._fixtureinfo.argnames}
    box = []

    def body():
        try:
            fn(**args)
        except BaseException as e:      # noqa: BLE001 - re-raised in the main thread below
            box.append(e)
    t = threading.Thread(target=body)
    t.start()
    t.join()
    if box:
        raise box[0]
    return True
