"""pytest plugin used by check C19: records, for every executed spec case, the node id, the outcome and whether the case
expects at least one entity (non-trivial).  One JSON line per test, one file per (xdist) process."""
import json
import os

import pytest

_OUT = os.environ.get('VRF_C19_OUT')
_fh = None


def _write(rec):
    global _fh
    if not _OUT:
        return
    if _fh is None:
        _fh = open('%s.%d' % (_OUT, os.getpid()), 'a', encoding='utf-8')
    _fh.write(json.dumps(rec, ensure_ascii=False) + '\n')
    _fh.flush()


@pytest.hookimpl(hookwrapper=True)
def pytest_runtest_makereport(item, call):
    outcome = yield
    rep = outcome.get_result()
    if rep.when == 'call' or (rep.when == 'setup' and rep.outcome != 'passed'):
        params = getattr(getattr(item, 'callspec', None), 'params', {}) or {}
        exp = params.get('expected_results')
        rec = {'nodeid': item.nodeid, 'outcome': rep.outcome, 'when': rep.when,
               'nontrivial': bool(exp) if exp is not None else True,
               'input': params.get('source'), 'culture': params.get('culture'), 'model': params.get('model')}
        if rep.outcome == 'failed':
            rec['longrepr'] = str(rep.longrepr)[-1500:]
        _write(rec)
