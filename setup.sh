#!/bin/sh
# Offline setup: nothing is fetched.  hypothesis is already in /venv on this image; re-installing from the
# wheelhouse is a no-op there and makes a fresh /venv usable.  atheris goes to /verif/.deps (optional).
set -u
cd "$(dirname "$0")"
export PIP_NO_INDEX=1 PIP_DISABLE_PIP_VERSION_CHECK=1
/venv/bin/python -c "import hypothesis" 2>/dev/null || \
  /venv/bin/pip install --no-index --find-links /opt/veriftools/wheels hypothesis || exit 1
if [ ! -d .deps/atheris ]; then
  /venv/bin/pip install --no-index --find-links /opt/veriftools/wheels --target .deps atheris >/dev/null 2>&1 \
    || echo "setup: atheris not installable; the coverage-guided tier will be reported as skipped"
fi
/venv/bin/python -W ignore - <<'PY' || exit 1
import sys
sys.path.insert(0, '.')
from lib import env
env.bootstrap()
sys.path.insert(0, 'vendor')
import ruamel.yaml, hypothesis, regex, emoji, datedelta, grapheme  # noqa
print('setup ok: hypothesis', hypothesis.__version__)
PY
