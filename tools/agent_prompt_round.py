#!/venv/bin/python
"""agent_prompt_round.py <ID> <round-no> <letters e.g. ef>: prompt for a later round of seeded changes (lists the earlier ones so that they are not repeated)."""
import glob, json, os, subprocess, sys
pid, rnd, letters = sys.argv[1], sys.argv[2], sys.argv[3]
base = subprocess.run(['/venv/bin/python', os.path.join(os.path.dirname(__file__), 'agent_prompt.py'), pid], stdout=subprocess.PIPE, text=True).stdout
wt0, wt = '/tmp/wt-%s' % pid, '/tmp/wt%s-%s' % (rnd, pid)
base = base.replace(wt0, wt).replace('{a, b}', '{%s, %s}' % (letters[0], letters[1]))
prev = []
for m in sorted(glob.glob('/verif/seeded/%s?/meta.json' % pid)):
    d = json.load(open(m))
    prev.append('- %s: %s (needs: %s)' % (os.path.basename(os.path.dirname(m)), d['summary'][:260], d.get('needs_to_manifest', '')[:160]))
print(base)
print('\nEARLIER ROUNDS: %d changes were already seeded for this property; do NOT repeat their mechanisms or trigger shapes, find different places and '
      'different kinds of trigger (think of: other cultures than English, other model types or code paths that serve the same property, carry-over '
      'between two calls, unusual but legal surface forms, boundary values of a different kind):' % len(prev))
print('\n'.join(prev))
print('Note: /tmp/rt-shims/run_suite.sh prints the pytest summary line(s); a full run takes several minutes when the machine is busy. The worktree for this '
      'round is %s (name your directories seeded/%s%s and seeded/%s%s).' % (wt, pid, letters[0], pid, letters[1]))
