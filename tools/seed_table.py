#!/venv/bin/python
"""Print the markdown table of DESIGN.md section 10 from seeded/*/meta.json."""
import json, os
ROOT = os.path.dirname(os.path.dirname(os.path.abspath(__file__)))
print('| seed | what was changed | needs to manifest | confirmed (demo 0/!=0, suite) | caught by |')
print('|---|---|---|---|---|')
for sid in sorted(os.listdir(os.path.join(ROOT, 'seeded'))):
    m = json.load(open(os.path.join(ROOT, 'seeded', sid, 'meta.json')))
    c = m.get('confirmation', {})
    conf = 'yes' if c.get('confirmed') else 'NO: ' + json.dumps({k: c.get(k) for k in ('patch_applies_to_current_tree', 'demo_exit_unchanged', 'demo_exit_with_change', 'suite')})
    caught = '; '.join('%s %s' % (k, 'caught' if 'caught' in v['verdict'] else 'MISSED' if 'MISSED' in v['verdict'] else v['verdict'])
                       for k, v in sorted(m.get('caught_by', {}).items())) or '-'
    extra = m.get('strengthening', '')
    def cell(x, n): return str(x).replace('|', '/').replace('\n', ' ')[:n]
    print('| %s | %s | %s | %s | %s%s |' % (sid, cell(m.get('summary', ''), 170), cell(m.get('needs_to_manifest', ''), 120), conf, caught,
                                          (' (' + extra + ')') if extra else ''))
