FIX_COMMITS = ['d3c9c356b', '905927f32', '71e6a50a8', '582569f7a', '3f8ac59d6', 'c0d2ec9c5', 'c6f23151b', '735131b2d', '6500bef69', 'c8b8ba304', '4205280fe', '0c8f53b35', '32638200f', 'a53209f77', '598d11d7e', 'f96dd7efe', '287c6aa26', 'f544cc7ee', '09e61c802',
               '784ebe24d', '4d3242ce7', '3839d873a', 'bff7b64d1', 'd5002ebc4', '84b06c85c']
NOTE = ('Exploration, not proof: absence of violations is shown only for the generated/enumerated cases counted in the evidence. '
        'Trusted base: the oracle code under /verif (stdlib datetime/decimal/ipaddress based), the datedelta and grapheme shims, CPython 3.12.')
CHECKS = {
    'C14': {
        'text': 'Hypothesis grammar of every TIMEX form of the statement (structured cases carrying the field values a correct parser must '
                'extract) + exhaustive enumeration of the small sub-grammars + datetimes for the from_* constructors; oracle: expected '
                'fields, round trip on fields, idempotence, canonical identity; histories of several spellings of one duration amount formatted one '
                'after the other. Sampling of an infinite string domain, so exploration.',
        'note': NOTE,
        'technique': 'property-based testing: Hypothesis grammar strategies + round-trip/field oracle, exhaustive enumeration of finite sub-grammars',
    },
    'C01': {
        'text': 'Every registered (model, culture) pair is run on the whole Specs corpus (all models of the culture, not only the one the spec is '
                'about), on generated well-formed expressions of all families in carriers with full-width variants, and on token soup from a closed '
                'pool (incl. U+0130, special unit tokens); oracle = own 24-entry normalisation table + length-preserving lower-casing, offsets in '
                'range, text equals the slice.',
        'note': NOTE, 'technique': 'property-based testing: corpus enumeration + Hypothesis expression/soup generators against an independent span oracle'},
    'C02': {
        'text': 'Hypothesis rule-based state machine over a pool of (model, query, culture, options, reference) tuples: helper calls, long-lived '
                'recognisers, threaded batches (2-8 harness threads, barrier), cache clears, permuted repetitions; reference model = answers of a '
                'sequential caller in a fresh forked process, computed in two orders; plus a cold-cache multi-thread soak. The pool includes date-time '
                'options x every date-time culture and references differing only in the seconds. Thread schedules are sampled, not enumerated.',
        'note': NOTE + ' Interleavings are whatever the GIL produces at a 200 microsecond switch interval.',
        'technique': 'stateful property-based testing (Hypothesis RuleBasedStateMachine) against a fresh-process reference model'},
    'C12': {
        'text': 'Same sources as C01 (corpus x all models, single expressions) plus sentences of 2-4 generated expressions joined by filler separators, '
                'deterministic chains of amounts with one unit, and date/time token adjacency; oracle = neighbours of one parse call are disjoint.',
        'note': NOTE, 'technique': 'property-based testing: corpus enumeration + Hypothesis sentence generator against a disjointness oracle'},
    'C17': {
        'text': 'Finite routing table (about 55 culture strings x 16 getters x fallback x options x target culture) enumerated, plus a Hypothesis '
                'rule-based machine that interleaves requests through fresh and long-lived recognisers, the recognize_* helpers and cache clears; '
                'oracle = reference routing function from the statement + behaviour fingerprints of models built directly from the registered '
                'constructors + object-identity rules for cache keys + culture-convention probes typed into the harness (independent of the '
                'registration table).',
        'note': NOTE, 'technique': 'stateful property-based testing (rule-based machine) + exhaustive routing table against a reference routing function'},
    'C03': {
        'text': 'Hypothesis-generated digit literals per culture (own writer for grouping/decimal marks, sign, 0-6 fraction digits, carriers incl. '
                'ambiguity-filter phrases, a quarter of the cases on a worker thread) against a Decimal oracle rounded to 15 significant digits, '
                'number and percentage model; thorough adds exhaustive 0..9999 per culture. Infinite domain, sampled: exploration.',
        'note': NOTE, 'technique': 'property-based testing: Hypothesis literal grammar + stdlib Decimal oracle'},
    'C04': {
        'text': 'Number-to-words functions written for the harness (nine languages) are the inverse oracle: exhaustive 0..9999 (en quick, all '
                'cultures thorough) + Hypothesis integers below the culture bound biased to powers of ten, all-nines and teen groups; cardinal and '
                'ordinal (en, zh, ja) models; known classes are narrow predicates in known_findings.json.',
        'note': NOTE, 'technique': 'property-based testing: inverse (number-to-words) oracle, exhaustive below 10^4 + Hypothesis sampling'},
    'C05': {
        'text': 'Exhaustive enumeration of every prefix/suffix table entry wired into every registered unit model (14,287 entries) with a differential '
                'value oracle (number model) and first-wins unit binding; Hypothesis amounts for every main/fraction currency pair. Finite tables are '
                'enumerated completely (exhaustive), the compound amounts are sampled.',
        'note': NOTE, 'technique': 'exhaustive enumeration of finite tables + differential oracle; Hypothesis for compound currency amounts'},
    'C06': {
        'text': 'Dates 1900-2099 written by the harness in every layout of the culture (16 English layouts, day-first numeric and month-name layouts '
                'for es/fr/pt/it/de/nl, ISO and CJK layouts for zh) under two references each (metamorphic: result independent of the reference), '
                'with a deterministic part for leap days, month ends and swap-sensitive days and for days written as ordinals; references related to '
                'the written date (same year/day); a concurrent part (cases evaluated on simultaneous threads); oracle = the date itself.',
        'note': NOTE, 'technique': 'property-based testing: Hypothesis date/layout/reference generators + exact-value oracle + metamorphic reference independence'},
    'C07': {
        'text': 'Exhaustive 24x60 HH:MM grid and every 12-hour spelling, Hypothesis HH:MM:SS and date+time compositions (absolute, today/tomorrow/'
                'yesterday, next/this/last weekday) under generated references; oracle = set of readings demanded by the statement.',
        'note': NOTE, 'technique': 'exhaustive grid + Hypothesis compositions against a readings oracle'},
    'C08': {
        'text': 'Reference datetimes (Hypothesis + explicit boundary pool, also enumerated) x all expression families of the statement x N up to 5000; '
                'oracle = stdlib datetime/timedelta/isocalendar arithmetic on the reference.',
        'note': NOTE, 'technique': 'property-based testing: Hypothesis references/families + stdlib calendar-arithmetic oracle'},
    'C09': {
        'text': 'All 366 month-day pairs and the weekday names with references forced next to the stated day (before/on/after, leap and non-leap years, '
                'midnight and daytime); oracle = 10-line occurrence search over years.',
        'note': NOTE, 'technique': 'enumeration of forced reference relations + Hypothesis, occurrence-search oracle'},
    'C10': {
        'text': 'Durations for N up to 5000 in seven units, generated from..to / between..and ranges over dates, clock times (incl. overnight, noon, '
                'midnight) and date-times under generated references, and every (start,end,duration) triple produced on the supported Specs inputs; '
                'oracle = own ISO-8601 duration arithmetic.',
        'note': NOTE, 'technique': 'property-based testing: Hypothesis range generators + triple-arithmetic oracle; exhaustive corpus clause'},
    'C11': {
        'text': 'Shape oracle (stdlib date/time validity, TIMEX/value agreement, type-name agreement, min-value sentinel) applied to every entity produced '
                'on the Specs corpus under spec and generated references, on the generated expressions of C06-C10, on an invalid-date family and on '
                'bare-hour ranges, and on an enumerated period vocabulary (quarters, halves, seasons, weeks of a month, relative periods) under '
                'boundary references.',
        'note': NOTE, 'technique': 'property-based testing: validity predicate over outputs of corpus + generated inputs'},
    'C13': {
        'text': 'Exhaustive boundary-octet IPv4 grid and per-position 0..255 sweep, Hypothesis over 2^32 / 2^128 / GUID layouts with own writers, '
                'near-miss invalid addresses (soundness via stdlib ipaddress), grammar-generated e-mail/URL/hashtag/mention/phone literals.',
        'note': NOTE, 'technique': 'property-based testing: generated literals + stdlib ipaddress oracle, exhaustive boundary grid'},
    'C15': {
        'text': 'Hypothesis TIMEX/reference cases for TimexResolver against stdlib calendar arithmetic; generated candidate/constraint sets for '
                'TimexRangeResolver against a validity predicate (soundness always, completeness for one date range and weekday candidates); a call '
                'that does not return is a violation (watchdog + confirmation replay).',
        'note': NOTE, 'technique': 'property-based testing: Hypothesis generators + stdlib datetime oracle / validity predicate, watchdog for non-termination'},
    'C16': {
        'text': 'Exhaustive strings up to length 5/6 over a small alphabet for both tokenizers and exhaustive (query, phrase) pairs for the matcher, plus '
                'Hypothesis dictionaries (list, list+ids, dict forms) and queries, plus generated histories on one matcher object (dictionary grown after '
                'searches, lazily consumed and interleaved searches, searches from several threads); oracles: token invariants, reference '
                'tokenizers, naive reference matcher.',
        'note': NOTE, 'technique': 'property-based testing: differential against reference tokenizer/naive matcher, exhaustive for tiny sizes'},
    'C18': {
        'text': 'Finite domain enumerated completely: every definition of every generated resource module is compared with what the repository\'s own '
                'generator (run with a vendored pure-Python ruamel.yaml) produces from Patterns/*.yaml (3,777 definitions), with the values an independent '
                'reading of the YAML gives, again after every model of every culture was built and used, and every banner-carrying module must have a '
                'definition entry. Differential, exhaustive.',
        'note': NOTE + ' The generator itself is the oracle (as the property states): a change to the generator that is also regenerated into the modules is not visible to this check.',
        'technique': 'exhaustive differential enumeration against the repository\'s resource generator'},
    'C19': {
        'text': 'Finite corpus enumerated with the repository\'s own parameterisation and comparison code (pytest/xdist subprocess from the working tree with '
                'shims); every Python-supported spec case is one case, failures become VIOLATION lines with node-id replay files; the cases are run a '
                'second time with every test body on a fresh worker thread.',
        'note': NOTE + ' pytest, xdist and the repository test runners are trusted.',
        'technique': 'exhaustive differential enumeration of the Specs corpus through the repository test runners'},
    'C20': {
        'text': 'Every alternative of TrueRegex/FalseRegex x letter case x 40 surroundings exhaustively, plus Hypothesis strings (random case, fillers, '
                'neutral pool, both polarities) under seven English culture codes against a polarity/span/score oracle; a concurrent part.',
        'note': NOTE, 'technique': 'property-based testing: exhaustive alternatives x surroundings + Hypothesis sentence generator'},
}
_PENDING = 'check not built yet in this session (under construction; the technique applies)'
NOT_APPLICABLE = {('C%02d' % i): _PENDING for i in range(1, 21)}
