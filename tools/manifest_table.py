FIX_COMMITS = ['4205280fe', '0c8f53b35', '32638200f', 'a53209f77', '598d11d7e', 'f96dd7efe', '287c6aa26', 'f544cc7ee', '09e61c802',
               '784ebe24d', '4d3242ce7', '3839d873a', 'bff7b64d1', 'd5002ebc4', '84b06c85c']
NOTE = ('Exploration, not proof: absence of violations is shown only for the generated/enumerated cases counted in the evidence. '
        'Trusted base: the oracle code under /verif (stdlib datetime/decimal/ipaddress based), the datedelta and grapheme shims, CPython 3.12.')
CHECKS = {
    'C14': {
        'text': 'Hypothesis grammar of every TIMEX form of the statement (structured cases carrying the field values a correct parser must '
                'extract) + exhaustive enumeration of the small sub-grammars + datetimes for the from_* constructors; oracle: expected '
                'fields, round trip on fields, idempotence, canonical identity. Sampling of an infinite string domain, so exploration.',
        'note': NOTE,
        'technique': 'property-based testing: Hypothesis grammar strategies + round-trip/field oracle, exhaustive enumeration of finite sub-grammars',
    },
}
_PENDING = 'check not built yet in this session (under construction; the technique applies)'
NOT_APPLICABLE = {('C%02d' % i): _PENDING for i in range(1, 21)}
