#!/bin/sh
# silence.sh <seeds> <ids...>: every check must be quiet (exit 0) on the unchanged tree at several VERIF_SEED values
SEEDS=$1; shift
for id in "$@"; do for s in $SEEDS; do
  out=$(VERIF_SEED=$s /verif/check $id 2>&1); rc=$?
  echo "$id seed=$s rc=$rc $(echo "$out" | grep -E "^$id tier" | cut -c1-160)"
  if [ $rc -ne 0 ]; then echo "$out" | grep -v "^KNOWN" | tail -8 | cut -c1-400; fi
done; done
