#!/venv/bin/python
"""Development tool: run one enumerated part of a check completely (thorough tier) and write every violation signature
that no predicate-based finding matches into ONE explicit-list finding of known_findings.json.
usage: calibrate_sigs.py <ID> <part-name> <finding-id> "<what>" [--by-kind]
Never run by a registered command; the registered checks only READ known_findings.json."""
import importlib, json, os, sys, multiprocessing as mp
ROOT = os.path.dirname(os.path.dirname(os.path.abspath(__file__)))
sys.path.insert(0, ROOT)
from lib import env, engine
env.bootstrap()
pid, part_name, fid, what = sys.argv[1:5]
check = importlib.import_module('checks.' + pid.lower())
if hasattr(check, 'warm'):
    check.warm('thorough')
parts = check.parts('thorough', 1)
part = [p for p in parts if p.name == part_name][0]
path = os.path.join(ROOT, 'known_findings.json')
kf = json.load(open(path))
kf['findings'] = [f for f in kf['findings'] if not f['id'].startswith(fid)]
json.dump(kf, open(path, 'w'), indent=1, ensure_ascii=False)
findings = engine.Findings(pid, getattr(check, 'PREDICATES', {}))

def work(case):
    r = part.fn(case)
    return [(case, v.kind, v.sig, v.detail) for v in r.violations if not findings.match(case, v)]

cases = list(part.cases())
with mp.get_context('fork').Pool(16) as pool:
    res = pool.map(work, cases, chunksize=20)
items = [x for sub in res for x in sub]
groups = {}
for case, kind, sig, detail in items:
    if sig is None:
        print('violation without sig, cannot be listed:', kind, str(detail)[:200]); continue
    groups.setdefault(kind if '--by-kind' in sys.argv else '', []).append((case, sig, detail))
for kind, its in sorted(groups.items()):
    sigs = []
    for _, s, _ in its:
        if s not in sigs:
            sigs.append(s)
    f = {'id': fid + ('-' + kind.lower() if kind else ''), 'property': pid, 'what': '%s%s (%d listed explicitly)' % (what, (' [' + kind + ']') if kind else '', len(sigs)),
         'match': {'sigs': sigs}, 'reproducers': [{'part': part_name, 'case': its[0][0]}]}
    kf['findings'].append(f)
    print(f['id'], len(sigs))
    for c, s, d in its[:40]:
        print('   ', json.dumps(s, ensure_ascii=False)[:160], '|', json.dumps(d.get('value') if isinstance(d, dict) else d, ensure_ascii=False)[:200])
json.dump(kf, open(path, 'w'), indent=1, ensure_ascii=False)
print('cases', len(cases), 'listed', sum(len(v) for v in groups.values()))
