#!/venv/bin/python
"""Regenerate the checked-in resource modules of /repo with the repository's own generator (what Python/build.sh
does before running the tests) and copy the ones that differ into the tree.  Used once for the 'fix:' commit F1."""
import os, shutil, sys
sys.path.insert(0, os.path.dirname(os.path.dirname(os.path.abspath(__file__))))
from lib import env, resgen
scratch = '/tmp/vrf-regen-%d' % os.getpid()
res = resgen.generate_all(scratch)
n = 0
for pkg, mods in res.items():
    for name, (gen, cur, _) in sorted(mods.items()):
        a = open(gen, 'rb').read()
        b = open(cur, 'rb').read() if os.path.exists(cur) else None
        if a != b:
            print('differs:', os.path.relpath(cur, env.REPO))
            n += 1
            if '--write' in sys.argv:
                shutil.copy(gen, cur)
shutil.rmtree(scratch)
print(n, 'modules differ')
