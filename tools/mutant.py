#!/venv/bin/python
"""Sensitivity self-test (development tool, not a registered check).

usage: mutant.py <ID> <relative-file-under-Python/libraries> <old> <new> [--tier quick] [--count N]
   or: mutant.py <ID> --patch <file.diff>            (patch is relative to the repository root)
Copies Python/libraries (+ links Specs, Patterns, Python/tests) to a scratch root OUTSIDE /repo and /verif,
applies the edit, runs ./check <ID> with VRF_REPO_ROOT=<scratch>, prints the exit code and removes the scratch copy.
Expected: exit 1 (the check notices the edit).
"""
import os, shutil, subprocess, sys, tempfile
VERIF = os.path.dirname(os.path.dirname(os.path.abspath(__file__)))


def make_scratch():
    root = tempfile.mkdtemp(prefix='vrf-mut-', dir='/tmp')
    os.makedirs(os.path.join(root, 'Python'))
    shutil.copytree('/repo/Python/libraries', os.path.join(root, 'Python', 'libraries'))
    shutil.copytree('/repo/Python/tests', os.path.join(root, 'Python', 'tests'))
    shutil.copytree('/repo/Patterns', os.path.join(root, 'Patterns'))
    os.symlink('/repo/Specs', os.path.join(root, 'Specs'))
    return root


def main():
    args = sys.argv[1:]
    pid = args[0]
    tier = 'quick'
    if '--tier' in args:
        i = args.index('--tier'); tier = args[i + 1]; del args[i:i + 2]
    root = make_scratch()
    try:
        if args[1] == '--patch':
            r = subprocess.run(['patch', '-p1', '-s', '-d', root, '-i', os.path.abspath(args[2])])
            if r.returncode:
                print('patch failed'); return 3
        else:
            rel, old, new = args[1:4]
            count = int(args[args.index('--count') + 1]) if '--count' in args else 1
            path = os.path.join(root, 'Python', 'libraries', rel)
            with open(path, encoding='utf-8', newline='') as f:
                text = f.read()
            eol = '\r\n' if '\r\n' in text else '\n'
            old, new = old.replace('\\n', '\n').replace('\n', eol), new.replace('\\n', '\n').replace('\n', eol)
            if text.count(old) != count:
                print('expected %d occurrence(s) of the old text, found %d' % (count, text.count(old))); return 3
            with open(path, 'w', encoding='utf-8', newline='') as f:
                f.write(text.replace(old, new))
        envv = dict(os.environ, VRF_REPO_ROOT=root)
        r = subprocess.run([os.path.join(VERIF, 'check'), pid, '--tier', tier], env=envv, stdout=subprocess.PIPE,
                           stderr=subprocess.STDOUT, text=True)
        tail = r.stdout.strip().splitlines()[-6:]
        print('\n'.join(l[:400] for l in tail))
        print('MUTANT exit=%d (%s)' % (r.returncode, 'caught' if r.returncode == 1 else 'MISSED' if r.returncode == 0 else 'harness error'))
        return 0
    finally:
        shutil.rmtree(root, ignore_errors=True)
        # evidence/replays written by a mutant run are not evidence of the real tree
        subprocess.run(['git', '-C', VERIF, 'checkout', '--', 'evidence/%s.json' % pid], stderr=subprocess.DEVNULL)


sys.exit(main())
