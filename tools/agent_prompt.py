#!/venv/bin/python
import json, sys
pid = sys.argv[1]
p = [json.loads(l) for l in open('/verif/properties.jsonl') if json.loads(l)['id'] == pid][0]
wt = '/tmp/wt-%s' % pid
print(f"""You are helping to evaluate a verification effort by seeding realistic bugs. Work ONLY inside the scratch git worktree {wt} (a checkout of Microsoft/Recognizers-Text; the Python port lives in {wt}/Python/libraries). Never modify or read anything under /repo or /verif.

Environment facts (sealed sandbox, no network):
- Python: /venv/bin/python. To import the packages of a checkout set PYTHONPATH="$(/tmp/rt-shims/pp.sh <repo-root>)" (adds tiny stand-ins for the uninstallable `datedelta` and `grapheme` packages plus the seven package directories). Example: PYTHONPATH=$(/tmp/rt-shims/pp.sh {wt}) /venv/bin/python -c "from recognizers_number import recognize_number; print(recognize_number('twenty one', 'en-us'))"
- The repository's own test-suite (about 14,900 spec-driven cases + datatypes unit tests) runs with: /tmp/rt-shims/run_suite.sh {wt}   (about 2-3 minutes; on the untouched worktree it reports "14914 passed" and no failures). You can pass extra pytest args, e.g. `-k datetime`.

The property under study ({p['id']}: {p['title']}):
STATEMENT: {p['statement']}
QUANTIFIED OVER: {p['quantifier']['text']}
Code it is anchored in: {', '.join(p['anchors']['files'][:10])}
Mechanisms: {'; '.join(m['name'] + ' (' + m.get('where','') + ')' for m in p['anchors']['mechanism'][:8])}

TASK: produce TWO independent source changes (different mechanisms / different places) to the Python library code in the worktree (not to tests, Specs or Patterns YAML), each of which
 (1) breaks the property above for some inputs/histories,
 (2) still imports and still passes the repository's whole test-suite (run_suite.sh must still report 14914 passed, 0 failed) — so the break must lie outside what the spec cases pin down,
 (3) needs something specific to manifest — an unusual input, a particular reference date or boundary value, a multi-step sequence of calls, a particular thread interleaving, or two cooperating edits that each look fine alone — rather than something any ordinary use exposes at once. It should look like a plausible maintenance mistake or refactoring slip, not sabotage with a magic constant check like `if x == 12345`.
For each change i in {{a, b}} create the directory {wt}/seeded/{p['id']}{{i}}/ containing:
 - patch.diff : `git diff` of the change relative to the worktree HEAD (apply-able with `git apply` from the repo root); only this one change.
 - demo.py : a small standalone program taking the repo root as argv[1] (it must insert the package dirs and /tmp/rt-shims into sys.path itself, BEFORE site-packages, and must not depend on the current directory) that exits 0 on the unchanged code and exits 1 (printing what went wrong) with the change applied.
 - meta.json : {{"property": "{p['id']}", "summary": "...", "needs_to_manifest": "...", "files": [...], "suite_result": "<last line of run_suite.sh with the change>"}}
Work on one change at a time: make it, run demo.py (must exit 1), run the suite (must pass), save patch.diff, then `git checkout -- Python` to revert, confirm demo.py exits 0, then do the second change. Leave the worktree source reverted at the end (only the seeded/ directory remains as untracked files). Report briefly what the two changes are.""")
