#!/usr/bin/env python3-vt
"""Validate MANIFEST.json and evidence files against the schemas (jsonschema lives in the tooling venv)."""
import glob, json, os, sys
import jsonschema
ROOT = os.path.dirname(os.path.dirname(os.path.abspath(__file__)))
ok = True
m = json.load(open(os.path.join(ROOT, 'MANIFEST.json')))
jsonschema.validate(m, json.load(open('/root/.vp/MANIFEST.schema.json')))
print('MANIFEST ok:', len(m['checks']), 'checks')
es = json.load(open('/root/.vp/EVIDENCE.schema.json'))
for c in m['checks']:
    p = os.path.join(ROOT, c['evidence_file'])
    if not os.path.exists(p):
        print('missing evidence', p); ok = False; continue
    try:
        jsonschema.validate(json.load(open(p)), es)
    except jsonschema.ValidationError as e:
        print('INVALID', p, e.message); ok = False
sys.exit(0 if ok else 1)
