#!/venv/bin/python
"""Run, for every confirmed seeded change under /verif/seeded/<id>/, the quick check of its property (and optionally other checks)
against a scratch copy with the patch applied, and record the verdicts in seeded/<id>/meta.json ('caught_by').
usage: seed_matrix.py [id ...] [--also C02]"""
import json, os, subprocess, sys
VERIF = os.path.dirname(os.path.dirname(os.path.abspath(__file__)))
args = [a for a in sys.argv[1:] if not a.startswith('--')]
also = []
if '--also' in sys.argv:
    also = sys.argv[sys.argv.index('--also') + 1].split(',')
    args = [a for a in args if a not in also and a != ','.join(also)]
ids = args or sorted(os.listdir(os.path.join(VERIF, 'seeded')))
for sid in ids:
    d = os.path.join(VERIF, 'seeded', sid)
    meta = json.load(open(os.path.join(d, 'meta.json')))
    prop = meta.get('property', sid[:3])
    verdicts = meta.get('caught_by', {})
    for chk in [prop] + also:
        p = subprocess.run([os.path.join(VERIF, 'tools', 'mutant.py'), chk, '--patch', os.path.join(d, 'patch.diff')], stdout=subprocess.PIPE,
                           stderr=subprocess.STDOUT, text=True)
        last = [l for l in p.stdout.splitlines() if l.startswith('MUTANT')]
        summary = [l for l in p.stdout.splitlines() if l.startswith(chk + ' tier=')]
        verdicts[chk + ':quick'] = {'verdict': (last[-1] if last else 'no verdict'), 'summary': summary[-1] if summary else ''}
        print(sid, chk, last[-1] if last else p.stdout[-200:], flush=True)
    meta['caught_by'] = verdicts
    json.dump(meta, open(os.path.join(d, 'meta.json'), 'w'), indent=1, ensure_ascii=False)
