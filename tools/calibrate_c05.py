#!/venv/bin/python
"""Development tool: (re)derive the explicit known-finding lists of C05 from the current tree.
Runs every table entry with both numerals, alone and in the carrier; an entry that fails in any of the four forms is
classified by root cause and written to known_findings.json (replacing the previous C05 table findings).
Never run by a registered command."""
import json, os, sys, multiprocessing as mp
ROOT = os.path.dirname(os.path.dirname(os.path.abspath(__file__)))
sys.path.insert(0, ROOT)
from lib import env
env.bootstrap()
from checks import c05

def work(entry):
    c, t, kind, f, unit, epi = entry
    kinds = set()
    first_form = None
    for numeral in ('int', 'dec'):
        for carrier in (False, True):
            case = {'culture': c, 'type': t, 'kind': kind, 'spelling': f, 'unit': unit, 'numeral': numeral, 'carrier': carrier, 'ep': epi}
            r = c05.run_entry(case)
            for v in r.violations:
                if not (v.kind == 'ISO_WRONG' and c05.PREDICATES['c05_zh_latin_no_iso'](case, v)):
                    kinds.add(v.kind)
                    first_form = first_form or (numeral, carrier)
    return entry, (sorted(kinds), first_form) if kinds else None

def classify(entry, cfgs):
    c, t, kind, f, unit, epi = entry
    amb, conn = cfgs[(c, t, epi)]
    if f in amb: return 'ambiguous'
    if f != f.lower(): return 'uppercase'
    if conn and f.lower().startswith(conn): return 'connector'
    if f != f.strip() or '  ' in f: return 'blank'
    if not f[0].isalnum() or not f[-1].isalnum(): return 'punct-edge'
    if c in ('zh-cn', 'ja-jp') and f.isascii(): return 'cjk-latin'
    return 'other'

WHAT = {
 'ambiguous': "spellings listed in the culture's ambiguous-unit list are (deliberately) not resolved on their own",
 'uppercase': "spellings containing an upper-case letter (Mbit, Kč, Øre, kiB): the query is lower-cased but the suffix trie and unit map are case-sensitive (deliberately so for Mb/MB), so they are missed or bound to the lower-case neighbour (kib = kibibit)",
 'connector': "spellings that begin with the culture's connector token ('decámetro cuadrado', 'denar macedonio', 'delisle', 'dinaro'): the parser strips a leading connector with startswith, without a word boundary",
 'blank': "table spellings that carry a leading/trailing or doubled blank",
 'punct-edge': "spellings that begin or end with punctuation (b/., r$ ...) are cut at the punctuation by the boundary look-arounds",
 'cjk-latin': "zh-cn: Latin-script unit spellings written after a blank are not attached to the number",
 'other': "other table spellings that are not resolved to their first-listed unit (overlapping spellings, symbols shared between prefix and suffix tables)",
}

def main():
    c05.warm('thorough')
    entries = c05.table_entries()
    cfgs = {}
    for c in c05.CULTURES:
        for t in c05.TYPES:
            m = c05.unit_model(c, t)
            if m is None: continue
            for epi, ep in enumerate(m.extractor_parser):
                cfgs[(c, t, epi)] = (set(ep.extractor.config.ambiguous_unit_list or []), (ep.parser.config.connector_token or '').lower())
    with mp.get_context('fork').Pool(16) as pool:
        res = pool.map(work, entries, chunksize=50)
    groups = {}
    for entry, kinds in res:
        if kinds:
            groups.setdefault(classify(entry, cfgs), []).append((entry, kinds))
    path = os.path.join(ROOT, 'known_findings.json')
    kf = json.load(open(path))
    kf['findings'] = [f for f in kf['findings'] if not f['id'].startswith('C05-')]
    kf['findings'].append({'id': 'C05-zh-latin-no-iso', 'property': 'C05',
                           'what': "zh-cn currency model: Latin-script spellings (5 euro, ₹5) are served by an embedded English sub-model whose parser is not the currency parser, so they come back without isoCurrency although the culture's table assigns one",
                           'match': {'pred': 'c05_zh_latin_no_iso', 'kinds': ['ISO_WRONG']},
                           'reproducers': [{'part': 'tables', 'case': {'culture': 'zh-cn', 'type': 'currency', 'kind': 'suffix', 'spelling': 'euro', 'unit': 'Euro', 'numeral': 'int', 'carrier': False, 'ep': 1}}]})
    for cls, items in sorted(groups.items()):
        sigs = [[e[0], e[1], e[2], e[3]] for e, _ in items]
        quickform = [it for it in items if it[1][1] == ('int', False)] or items
        e0, (_, form) = quickform[0]
        rep = {'part': 'tables', 'case': {'culture': e0[0], 'type': e0[1], 'kind': e0[2], 'spelling': e0[3], 'unit': e0[4], 'numeral': form[0],
                                          'carrier': form[1], 'ep': e0[5]}}
        kf['findings'].append({'id': 'C05-table-' + cls, 'property': 'C05', 'what': '%s (%d table entries, listed explicitly)' % (WHAT[cls], len(items)),
                               'match': {'sigs': sigs}, 'reproducers': [rep]})
        print(cls, len(items), [e[3] for e, _ in items[:6]])
    json.dump(kf, open(path, 'w'), indent=1, ensure_ascii=False)
    print('entries', len(entries), 'failing', sum(len(v) for v in groups.values()))

main()
