#!/venv/bin/python
"""Confirm the seeded changes delivered by the sub-agents: for each /tmp/seeded-incoming/<id>/ (patch.diff, demo.py, meta.json)
 1. the patch applies to a scratch copy of the current /repo tree (never to /repo itself),
 2. demo.py exits 0 on /repo and non-zero on the patched copy,
 3. the repository's own test-suite still passes on the patched copy (for C19 seeds: the pinned baseline command instead),
then store patch.diff, demo.py and meta.json (with what was run and observed) under /verif/seeded/<id>/.
usage: confirm_seeds.py [ids...]"""
import json, os, shutil, subprocess, sys, tempfile
from concurrent.futures import ThreadPoolExecutor
SRC = '/tmp/seeded-incoming'
VERIF = os.path.dirname(os.path.dirname(os.path.abspath(__file__)))


def scratch():
    root = tempfile.mkdtemp(prefix='vrf-seed-', dir='/tmp')
    os.makedirs(os.path.join(root, 'Python'))
    shutil.copytree('/repo/Python/libraries', os.path.join(root, 'Python', 'libraries'))
    shutil.copytree('/repo/Python/tests', os.path.join(root, 'Python', 'tests'))
    shutil.copytree('/repo/Patterns', os.path.join(root, 'Patterns'))
    os.symlink('/repo/Specs', os.path.join(root, 'Specs'))
    return root


def run(cmd, **kw):
    p = subprocess.run(cmd, stdout=subprocess.PIPE, stderr=subprocess.STDOUT, text=True, **kw)
    return p.returncode, p.stdout


def confirm(sid):
    d = os.path.join(SRC, sid)
    meta = json.load(open(os.path.join(d, 'meta.json')))
    root = scratch()
    out = {'id': sid, 'property': meta.get('property', sid[:3])}
    try:
        rc, o = run(['patch', '-p1', '-s', '-d', root, '-i', os.path.join(d, 'patch.diff')])
        out['patch_applies_to_current_tree'] = rc == 0
        if rc != 0:
            out['patch_output'] = o[-400:]
            return out
        rc0, o0 = run(['/venv/bin/python', os.path.join(d, 'demo.py'), '/repo'], timeout=900)
        rc1, o1 = run(['/venv/bin/python', os.path.join(d, 'demo.py'), root], timeout=900)
        out['demo_exit_unchanged'] = rc0
        out['demo_exit_with_change'] = rc1
        out['demo_output_with_change'] = o1.strip()[-500:]
        env = dict(os.environ, PYTHONDONTWRITEBYTECODE='1',
                   PYTHONPATH=subprocess.check_output(['/tmp/rt-shims/pp.sh', root], text=True).strip())
        if sid.startswith('C19'):
            rc2, o2 = run(['/venv/bin/python', '-m', 'pytest', '-q', '-p', 'no:cacheprovider', 'Python/tests/datatypes'], cwd=root, env=env)
            out['suite'] = 'pinned baseline: ' + o2.strip().splitlines()[-1]
            out['suite_ok'] = '204 passed' in o2 or (rc2 == 0 and 'failed' not in out['suite'])
        else:
            rc2, o2 = run(['/venv/bin/python', '-W', 'ignore', '-m', 'pytest', '-p', 'no:cacheprovider', '-q', '-n', '4', 'tests'],
                          cwd=os.path.join(root, 'Python'), env=env, timeout=3600)
            last = [l for l in o2.strip().splitlines() if 'passed' in l or 'failed' in l or 'error' in l][-1:]
            out['suite'] = last[0] if last else o2[-200:]
            out['suite_ok'] = rc2 == 0 and 'failed' not in out['suite']
        out['confirmed'] = bool(out['patch_applies_to_current_tree'] and rc0 == 0 and rc1 != 0 and out['suite_ok'])
        return out
    finally:
        shutil.rmtree(root, ignore_errors=True)


def main():
    ids = sys.argv[1:] or sorted(os.listdir(SRC))
    with ThreadPoolExecutor(4) as ex:
        for res in ex.map(confirm, ids):
            sid = res['id']
            print(json.dumps(res, ensure_ascii=False)[:600], flush=True)
            dst = os.path.join(VERIF, 'seeded', sid)
            os.makedirs(dst, exist_ok=True)
            for f in ('patch.diff', 'demo.py'):
                shutil.copy(os.path.join(SRC, sid, f), dst)
            meta = json.load(open(os.path.join(SRC, sid, 'meta.json')))
            meta['confirmation'] = res
            meta['confirmation']['how'] = ('tools/confirm_seeds.py: patch applied to a scratch copy of the current tree under /tmp (removed afterwards); '
                                           'demo.py run against /repo and against the copy; repository test-suite run on the copy with pytest -n 4')
            json.dump(meta, open(os.path.join(dst, 'meta.json'), 'w'), indent=1, ensure_ascii=False)


main()
