#!/venv/bin/python
"""Writes MANIFEST.json from the table below (kept in one place so that it always validates)."""
import json, os, sys
ROOT = os.path.dirname(os.path.dirname(os.path.abspath(__file__)))
sys.path.insert(0, ROOT)
from tools.manifest_table import CHECKS, NOT_APPLICABLE, FIX_COMMITS

props = [json.loads(l)['id'] for l in open(os.path.join(ROOT, 'properties.jsonl'))]
checks = []
for pid in props:
    if pid not in CHECKS:
        continue
    c = CHECKS[pid]
    checks.append({
        'property_id': pid,
        'quick_cmd': './check %s --tier quick' % pid,
        'thorough_cmd': './check %s --tier thorough' % pid,
        'evidence_file': 'evidence/%s.json' % pid,
        'replay_cmd_template': './check %s --replay {path}' % pid,
        'engine': 'pbt-engine',
        'level_claimed': {'category': 'exploration', 'text': c['text'], 'design_ref': 'DESIGN.md section 4, ' + pid},
        'level_note': c['note'],
        'technique': c['technique'],
    })
na = [{'property_id': p, 'reason': NOT_APPLICABLE[p]} for p in props if p not in CHECKS]
assert all(p in NOT_APPLICABLE for p in props if p not in CHECKS)
m = {
    'version': 1,
    'setup_cmd': './setup.sh',
    'hooks': {
        'guard': 'RECOGNIZERS_TEXT_VERIF',
        'enable': 'no source hooks: checks import the packages from /repo/Python/libraries with RECOGNIZERS_TEXT_VERIF=1 exported (unused by the sources)',
        'baseline_off_cmd': 'cd /repo && /venv/bin/python -m pytest -ra -q -p no:cacheprovider --timeout=900 --continue-on-collection-errors',
        'source_commits': [],
        'add_only': True,
    },
    'engines': [{'name': 'pbt-engine', 'path': 'lib/engine.py', 'serves_properties': [c['property_id'] for c in checks],
                 'kind_free_text': 'Hypothesis strategies / rule-based state machines / exhaustive enumeration of finite domains, '
                                   'sharded over 16 forked workers with a per-case watchdog, bucketed shrinking, known-findings matching, replay files'}],
    'checks': checks,
    'not_applicable': na,
    'notes': 'Repairs of genuine defects committed to /repo as fix: commits: ' + ', '.join(FIX_COMMITS) + '. See known_findings.json and DESIGN.md.',
}
json.dump(m, open(os.path.join(ROOT, 'MANIFEST.json'), 'w'), indent=1)
try:
    import jsonschema
    jsonschema.validate(m, json.load(open('/root/.vp/MANIFEST.schema.json')))
    print('MANIFEST.json valid,', len(checks), 'checks,', len(na), 'not applicable')
except ImportError:
    print('MANIFEST.json written (jsonschema not available)')
