#!/bin/sh
# seedtest.sh <seed-dir> <check-id> [tier]: apply a seeded patch to a scratch copy (never /repo), run demo + check
D=$1; ID=$2; TIER=${3:-quick}
/verif/tools/mutant.py $ID --patch $D/patch.diff --tier $TIER
