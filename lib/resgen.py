"""Run the repository's own resource generator (Python/libraries/resource-generator/index.py) into a scratch
directory, using the vendored pure-Python ruamel.yaml.  Used by check C18 and by tools/regen_resources.py."""
import json
import os
import shutil
import subprocess
import sys

from . import env

PACKAGES = ['recognizers-choice', 'recognizers-number', 'recognizers-number-with-unit', 'recognizers-date-time',
            'recognizers-sequence']


def _resolve_ci(root, rel_parts):
    """Resolve a path below root ignoring letter case (the generator was written on a case-insensitive FS)."""
    cur = root
    for part in rel_parts:
        names = os.listdir(cur)
        if part in names:
            cur = os.path.join(cur, part)
            continue
        cands = [n for n in names if n.lower() == part.lower()]
        if len(cands) != 1:
            return None
        cur = os.path.join(cur, cands[0])
    return cur


def generate_all(scratch, repo=None):
    """Returns {package: {module_name: (generated_path, checked_in_path, yaml_path)}}."""
    repo = repo or env.REPO
    libs = os.path.join(repo, 'Python', 'libraries')
    shutil.rmtree(scratch, ignore_errors=True)
    gen_dir = os.path.join(scratch, 'Python', 'libraries', 'resource-generator')
    shutil.copytree(os.path.join(libs, 'resource-generator'), gen_dir)
    pat_src = os.path.join(repo, 'Patterns')
    pat_dst = os.path.join(scratch, 'Patterns')
    os.makedirs(pat_dst)
    result = {}
    for pkg in PACKAGES:
        src_def = os.path.join(libs, pkg, 'resource-definitions.json')
        dst_pkg = os.path.join(scratch, 'Python', 'libraries', pkg)
        os.makedirs(dst_pkg)
        shutil.copy(src_def, dst_pkg)
        with open(src_def, encoding='utf-8') as f:
            spec = json.load(f)
        out_dir = os.path.normpath(os.path.join(dst_pkg, spec['outputPath']))
        os.makedirs(out_dir, exist_ok=True)
        mods = {}
        for cfg in spec['configFiles']:
            parts = list(cfg['input'])
            parts[-1] = parts[-1] + '.yaml'
            real = _resolve_ci(pat_src, parts)
            if real is None:
                raise env.HarnessError('pattern file for %s not found: %s' % (pkg, '/'.join(parts)))
            link = os.path.join(pat_dst, *parts)
            os.makedirs(os.path.dirname(link), exist_ok=True)
            if not os.path.lexists(link):
                os.symlink(real, link)
            mods[cfg['output']] = (os.path.join(out_dir, cfg['output'] + '.py'),
                                   os.path.normpath(os.path.join(libs, pkg, spec['outputPath'], cfg['output'] + '.py')),
                                   real)
        envv = dict(os.environ, PYTHONPATH=os.path.join(env.VERIF, 'vendor'), PYTHONDONTWRITEBYTECODE='1')
        p = subprocess.run([sys.executable, 'index.py', os.path.join('..', pkg, 'resource-definitions.json')],
                           cwd=gen_dir, env=envv, stdout=subprocess.PIPE, stderr=subprocess.STDOUT, text=True)
        if p.returncode != 0 or 'Error while creating' in p.stdout:
            raise env.HarnessError('resource generator failed for %s:\n%s' % (pkg, p.stdout[-2000:]))
        result[pkg] = mods
    return result
