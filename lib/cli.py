import importlib
import sys
import warnings

warnings.filterwarnings('ignore')


def main():
    if len(sys.argv) < 2:
        sys.stderr.write('usage: check <ID> [--tier quick|thorough] [--replay FILE]\n')
        return 2
    pid = sys.argv[1].upper()
    from . import engine
    try:
        mod = importlib.import_module('checks.%s' % pid.lower())
    except ImportError as e:
        sys.stderr.write('HARNESS ERROR: no check for %s (%s)\n' % (pid, e))
        return 2
    return engine.main(mod, sys.argv[2:])


if __name__ == '__main__':
    sys.exit(main())
