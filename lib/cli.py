import importlib
import sys
import warnings

warnings.filterwarnings('ignore')


def main():
    if len(sys.argv) < 2:
        sys.stderr.write('usage: check <ID> [--tier quick|thorough] [--replay FILE]\n')
        return 2
    pid = sys.argv[1].upper()
    from . import engine
    try:
        mod = importlib.import_module('checks.%s' % pid.lower())
    except BaseException as e:      # a broken check module is a harness error (exit 2), never a violation (exit 1)
        sys.stderr.write('HARNESS ERROR: cannot load the check for %s (%r)\n' % (pid, e))
        return 2
    return engine.main(mod, sys.argv[2:])


if __name__ == '__main__':
    try:
        code = main()
    except SystemExit:
        raise
    except BaseException as e:
        sys.stderr.write('HARNESS ERROR: %r\n' % (e,))
        code = 2
    sys.exit(code)
