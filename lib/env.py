"""Bootstrap: make the packages under test import from the repository working tree (never from
site-packages), with the two shims for packages that cannot be installed offline."""
import os
import sys

VERIF = os.path.dirname(os.path.dirname(os.path.abspath(__file__)))
REPO = os.path.abspath(os.environ.get('VRF_REPO_ROOT', '/repo'))
LIBS = os.path.join(REPO, 'Python', 'libraries')
PKG_DIRS = ['recognizers-text', 'recognizers-number', 'recognizers-number-with-unit',
            'recognizers-date-time', 'recognizers-sequence', 'recognizers-choice',
            'datatypes-timex-expression']
PKGS = ['recognizers_text', 'recognizers_number', 'recognizers_number_with_unit', 'recognizers_date_time',
        'recognizers_sequence', 'recognizers_choice', 'datatypes_timex_expression']
GUARD = 'RECOGNIZERS_TEXT_VERIF'


class HarnessError(Exception):
    pass


def pythonpath():
    return [os.path.join(VERIF, 'shims')] + [os.path.join(LIBS, d) for d in PKG_DIRS]


def bootstrap(import_all=True):
    os.environ[GUARD] = '1'
    paths = pythonpath()
    for p in reversed(paths):
        if p in sys.path:
            sys.path.remove(p)
        sys.path.insert(0, p)
    deps = os.path.join(VERIF, '.deps')
    if os.path.isdir(deps) and deps not in sys.path:
        sys.path.append(deps)
    if import_all:
        check_imports()


def check_imports(pkgs=PKGS):
    import importlib
    for name in pkgs:
        mod = importlib.import_module(name)
        f = os.path.abspath(mod.__file__)
        if not f.startswith(LIBS + os.sep):
            raise HarnessError('%s imported from %s, not from %s' % (name, f, LIBS))
