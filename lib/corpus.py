"""All inputs of Specs/**/*.json that Python claims to support, with culture and reference date."""
import glob
import json
import os

from . import env

CUL = {'Chinese': 'zh-cn', 'Dutch': 'nl-nl', 'English': 'en-us', 'French': 'fr-fr', 'Italian': 'it-it', 'Japanese': 'ja-jp',
       'Portuguese': 'pt-br', 'Spanish': 'es-es', 'SpanishMexican': 'es-mx', 'German': 'de-de'}
DEFAULT_REF = '2016-11-07T00:00:00'
_CACHE = {}


def supported(s):
    return not (('NotSupported' in s and 'python' in s['NotSupported']) or
                ('NotSupportedByDesign' in s and 'python' in s['NotSupportedByDesign']))


def entries(recognizers=None):
    """[{'culture', 'recognizer', 'file', 'input', 'ref'}] (distinct by culture/input/ref), sorted for determinism."""
    key = tuple(recognizers) if recognizers else None
    if key in _CACHE:
        return _CACHE[key]
    out = {}
    for f in sorted(glob.glob(os.path.join(env.REPO, 'Specs', '*', '*', '*.json'))):
        parts = f.split(os.sep)
        rec, lang = parts[-3], parts[-2]
        if lang not in CUL or (recognizers and rec not in recognizers):
            continue
        try:
            with open(f, encoding='utf-8-sig') as fh:
                specs = json.load(fh)
        except ValueError:
            continue
        for s in specs:
            if not isinstance(s, dict) or 'Input' not in s or not supported(s):
                continue
            rd = (s.get('Context') or {}).get('ReferenceDateTime')
            ref = rd[:19] if rd else DEFAULT_REF
            k = (CUL[lang], s['Input'], ref if rec == 'DateTime' else DEFAULT_REF)
            if k not in out:
                out[k] = {'culture': CUL[lang], 'recognizer': rec, 'file': os.path.basename(f), 'input': s['Input'], 'ref': k[2]}
    res = [out[k] for k in sorted(out)]
    _CACHE[key] = res
    return res
