"""Generated-input search engine shared by all checks.

A check module describes *parts*.  A part is a finite enumeration (`enum`), a Hypothesis strategy
(`hyp`), a Hypothesis rule-based state machine (`machine`) or a custom procedure (`custom`).  Every
part has a function `fn(case) -> R` that calls the real code, applies the oracle and classifies the
case.  The engine shards parts over forked workers, keeps a watchdog on every worker, buckets and
shrinks failures, matches them against the committed known-findings file, writes replay files and
the evidence file, and prints the VIOLATION / KNOWN-FINDING lines.

Exit codes: 0 held, 1 violation, 2 harness error.
"""
import hashlib
import json
import multiprocessing as mp
import os
import pickle
import shutil
import signal
import sys
import time
import traceback

from . import env

NPROC = int(os.environ.get('VERIF_JOBS', '16'))
MAX_RESTARTS = 4          # distinct root causes reported per Hypothesis shard
MAX_PER_BUCKET = 2
COLLECT = os.environ.get('VERIF_COLLECT') == '1'      # calibration mode, never used by registered commands
NO_KNOWN = os.environ.get('VERIF_NO_KNOWN') == '1'
HANG_S = float(os.environ.get('VERIF_HANG_S', '180'))
SLOT_BYTES = 8192


# --------------------------------------------------------------------------------------------------
# result objects
# --------------------------------------------------------------------------------------------------
class V(object):
    """One violation found by an oracle."""
    __slots__ = ('kind', 'detail', 'sig', 'bucket')

    def __init__(self, kind, detail=None, sig=None, bucket=None):
        self.kind = kind
        self.detail = detail
        self.sig = sig                  # JSON-able signature used for explicit known-finding lists
        self.bucket = bucket or kind    # root-cause bucket (search continues past a found bucket)

    def to_json(self):
        return {'kind': self.kind, 'detail': self.detail, 'sig': self.sig, 'bucket': self.bucket}


class R(object):
    """Outcome of one case."""
    __slots__ = ('violations', 'nontrivial', 'labels', 'obs', 'key', 'evals')

    def __init__(self, violations=None, nontrivial=False, labels=(), obs=None, key=None, evals=1):
        self.violations = violations or []
        self.nontrivial = nontrivial
        self.labels = labels
        self.obs = obs
        self.key = key          # distinctness key; default: the case itself
        self.evals = evals      # calls of the code under test made for this case


class Part(object):
    def __init__(self, name, kind, fn=None, cases=None, strategy=None, max_examples=0, machine=None,
                 steps=30, run=None, exhaustive=False, hang_is_violation=False, hang_s=None, min_shard=50,
                 replay=None, shards=None, weight=1.0):
        self.name, self.kind, self.fn = name, kind, fn
        self.cases = cases                  # enum: zero-argument callable returning an iterable of JSON-able cases
        self.strategy = strategy            # hyp: zero-argument callable returning a SearchStrategy of JSON-able cases
        self.max_examples = max_examples
        self.machine = machine              # machine: zero-argument callable returning the machine class
        self.steps = steps
        self.run = run                      # custom: callable(ctx) run in ONE worker
        self.exhaustive = exhaustive
        self.hang_is_violation = hang_is_violation
        self.hang_s = hang_s or HANG_S
        self.min_shard = min_shard
        self.replay = replay                # optional callable(case) -> R for replay (default fn)
        self.shards = shards
        self.weight = weight


def enum_part(name, cases, fn, **kw):
    return Part(name, 'enum', fn=fn, cases=cases, **kw)


def hyp_part(name, strategy, fn, max_examples, **kw):
    return Part(name, 'hyp', fn=fn, strategy=strategy, max_examples=max_examples, **kw)


def machine_part(name, machine, max_examples, steps=30, **kw):
    return Part(name, 'machine', machine=machine, max_examples=max_examples, steps=steps, **kw)


def concurrent_part(name, strategy, fn, max_examples, group=(2, 4), rounds=3, **kw):
    """The cases of an ordinary generated part, evaluated 2-4 at a time on simultaneous threads (switch interval 10 microseconds) with the
    part's own oracle.  A case is first evaluated alone; only cases that are clean alone are asserted clean under concurrency, so that
    known findings keep being matched by the ordinary parts.  Models and extractors are cached process-wide: whatever per-call state they
    keep on themselves is shared by these threads."""
    def strat():
        from hypothesis import strategies as st
        return st.lists(strategy(), min_size=group[0], max_size=group[1]).map(lambda cs: {'cases': cs})

    def run(case):
        import sys
        import threading
        cs = case['cases']
        alone = [fn(c) for c in cs]
        outs = [None] * len(cs)
        errs = []
        barrier = threading.Barrier(len(cs))

        def work(k):
            try:
                barrier.wait(timeout=120)
                for _ in range(rounds):
                    r = fn(cs[k])
                    outs[k] = r
                    if r.violations:
                        break
            except BaseException as e:      # noqa: BLE001 - re-raised below
                errs.append(e)
        old = sys.getswitchinterval()
        sys.setswitchinterval(1e-5)
        try:
            ths = [threading.Thread(target=work, args=(k,)) for k in range(len(cs))]
            for t in ths:
                t.start()
            for t in ths:
                t.join()
        finally:
            sys.setswitchinterval(old)
        if errs:
            raise errs[0]
        vs = []
        for k, r in enumerate(outs):
            if alone[k].violations or r is None:
                continue
            for v in r.violations:
                vs.append(V(v.kind, {'only_under_concurrency': True, 'case': cs[k], 'together_with': [c for j, c in enumerate(cs) if j != k],
                                     'detail': v.detail}, bucket='CONCURRENT:' + str(v.bucket)))
        clean = sum(1 for a in alone if not a.violations)
        return R(vs, nontrivial=clean >= 2, labels=['concurrent:%d' % len(cs)], obs={'first': alone[0].obs}, key=[a.key for a in alone],
                 evals=len(cs) * (1 + rounds))
    return Part(name, 'hyp', fn=run, strategy=strat, max_examples=max_examples, **kw)


def custom_part(name, run, **kw):
    return Part(name, 'custom', run=run, **kw)


# --------------------------------------------------------------------------------------------------
# helpers
# --------------------------------------------------------------------------------------------------
def canon(obj):
    return json.dumps(obj, sort_keys=True, ensure_ascii=False, default=str)


def h64(obj):
    s = obj if isinstance(obj, str) else canon(obj)
    return int.from_bytes(hashlib.blake2b(s.encode('utf-8', 'surrogatepass'), digest_size=8).digest(), 'big')


def derive_seed(seed, *names):
    s = canon([seed] + list(names))
    return int.from_bytes(hashlib.sha256(s.encode()).digest()[:6], 'big')


def hyp_settings(max_examples, steps=None, shrink=True):
    from hypothesis import settings, HealthCheck, Phase
    phases = [Phase.explicit, Phase.generate, Phase.target]
    if shrink:
        phases.append(Phase.shrink)
    kw = dict(max_examples=max(1, max_examples), deadline=None, database=None, derandomize=False,
              report_multiple_bugs=False, print_blob=False, phases=phases,
              suppress_health_check=[HealthCheck.too_slow, HealthCheck.data_too_large,
                                     HealthCheck.large_base_example])
    if steps is not None:
        kw['stateful_step_count'] = steps
    return settings(**kw)


# --------------------------------------------------------------------------------------------------
# known findings
# --------------------------------------------------------------------------------------------------
class Findings(object):
    def __init__(self, prop, predicates=None):
        path = os.path.join(env.VERIF, 'known_findings.json')
        data = {'findings': [], 'fixed': []}
        if os.path.exists(path):
            with open(path, encoding='utf-8') as f:
                data = json.load(f)
        self.findings = [f for f in data.get('findings', []) if f['property'] == prop]
        self.fixed = [f for f in data.get('fixed', []) if f['property'] == prop]
        self.predicates = predicates or {}
        self._sigs = {}
        for f in self.findings:
            for s in f.get('match', {}).get('sigs', []):
                self._sigs[canon(s)] = f['id']
            p = f.get('match', {}).get('pred')
            if p and p not in self.predicates:
                raise env.HarnessError('known finding %s names unknown predicate %s' % (f['id'], p))

    def match(self, case, v):
        if NO_KNOWN:
            return None
        if isinstance(v.bucket, str) and v.bucket.startswith('CONCURRENT:'):
            return None     # clean alone, wrong only next to other threads: never a listed finding
        if v.sig is not None:
            fid = self._sigs.get(canon(v.sig))
            if fid:
                return fid
        for f in self.findings:
            m = f.get('match', {})
            p = m.get('pred')
            if p and (not m.get('kinds') or v.kind in m['kinds']) and self.predicates[p](case, v):
                return f['id']
        return None


# --------------------------------------------------------------------------------------------------
# per-worker statistics
# --------------------------------------------------------------------------------------------------
class Stats(object):
    MAX_SAMPLES = 4

    def __init__(self):
        self.cases = 0
        self.evals = 0
        self.nt = set()
        self.labels = {}
        self.samples = []
        self.known = {}
        self.violations = []        # dicts: part, case, violation, shrunk
        self.vcount = {}
        self.hangs = []
        self.extra = {}
        self.excluded = 0

    def record(self, part, case, r):
        self.cases += 1
        self.evals += r.evals
        if r.nontrivial:
            k = h64(r.key if r.key is not None else case)
            if k not in self.nt:
                self.nt.add(k)
                if len(self.samples) < self.MAX_SAMPLES:
                    self.samples.append({'part': part.name, 'case': case, 'observed': r.obs})
        for lab in r.labels:
            self.labels[lab] = self.labels.get(lab, 0) + 1

    def merge(self, o):
        self.cases += o.cases
        self.evals += o.evals
        self.nt |= o.nt
        for k, n in o.labels.items():
            self.labels[k] = self.labels.get(k, 0) + n
        self.samples.extend(o.samples)
        for k, n in o.known.items():
            self.known[k] = self.known.get(k, 0) + n
        self.violations.extend(o.violations)
        for k, n in o.vcount.items():
            self.vcount[k] = self.vcount.get(k, 0) + n
        self.hangs.extend(o.hangs)
        for k, val in o.extra.items():
            if isinstance(val, (int, float)) and isinstance(self.extra.get(k, 0), (int, float)):
                self.extra[k] = self.extra.get(k, 0) + val
            else:
                self.extra[k] = val
        self.excluded += o.excluded


class Ctx(object):
    """Execution context inside a worker (also used for replay)."""

    def __init__(self, check, part, findings, slot=None, beat=None, tier='quick', seed=1):
        self.check, self.part, self.findings = check, part, findings
        self.stats = Stats()
        self.slot, self.beat = slot, beat
        self.excluded_buckets = set()
        self.tier, self.seed = tier, seed
        self.last_fail = None

    def heartbeat(self, case=None):
        if self.beat is not None:
            self.beat.value += 1
            if case is not None:
                try:
                    b = canon(case).encode('utf-8', 'replace')[:SLOT_BYTES - 1]
                    self.slot.value = b
                except Exception:
                    pass

    def process(self, case, fn=None, raise_new=False):
        """Run one case; returns the list of NEW (unknown, not yet bucketed) violations."""
        self.heartbeat(case)
        r = (fn or self.part.fn)(case)
        self.stats.record(self.part, case, r)
        new = []
        for v in r.violations:
            fid = self.findings.match(case, v)
            if fid:
                self.stats.known[fid] = self.stats.known.get(fid, 0) + 1
                continue
            if v.bucket in self.excluded_buckets:
                self.stats.excluded += 1
                self.stats.vcount[v.bucket] = self.stats.vcount.get(v.bucket, 0) + 1
                continue
            new.append(v)
        if new and COLLECT:
            # calibration mode (development aid): never stop, keep two examples per bucket
            for v in new:
                if self.stats.vcount.get(v.bucket, 0) < 2:
                    self.add_violation(case, v, r.obs)
                else:
                    self.stats.vcount[v.bucket] += 1
            return [], r
        if new and raise_new:
            self.last_fail = (case, new[0], r.obs)
            raise AssertionError('%s: %s' % (new[0].kind, canon(new[0].detail)[:300]))
        return new, r

    def add_violation(self, case, v, obs=None, shrunk=False):
        self.stats.vcount[v.bucket] = self.stats.vcount.get(v.bucket, 0) + 1
        self.stats.violations.append({'part': self.part.name, 'case': case, 'violation': v.to_json(),
                                      'observed': obs, 'shrunk': shrunk})


_CURRENT = None


def current():
    return _CURRENT


# --------------------------------------------------------------------------------------------------
# worker bodies
# --------------------------------------------------------------------------------------------------
def _run_enum(ctx, shard, nshards):
    for i, case in enumerate(ctx.part.cases()):
        if i % nshards != shard:
            if i % 256 == 0:
                ctx.heartbeat()
            continue
        new, r = ctx.process(case)
        for v in new:
            if ctx.stats.vcount.get(v.bucket, 0) < 3:
                ctx.add_violation(case, v, r.obs)
            else:
                ctx.stats.vcount[v.bucket] += 1


def _run_hyp(ctx, shard, nshards):
    import hypothesis
    from hypothesis import given
    part = ctx.part
    n = max(1, part.max_examples // nshards)
    strat = part.strategy()
    for attempt in range(MAX_RESTARTS + 1):
        ctx.last_fail = None

        @hypothesis.seed(derive_seed(ctx.seed, part.name, shard, attempt))
        @hyp_settings(n)
        @given(strat)
        def test(case):
            ctx.process(case, raise_new=True)

        try:
            test()
            return
        except BaseException:
            # AssertionError = the shrunk failure; anything else while a failure is recorded (typically Hypothesis' Flaky, raised when
            # a failure depends on hidden state and does not reproduce during shrinking) still reports the recorded failing case
            if ctx.last_fail is None:
                raise
            case, v, obs = ctx.last_fail
            ctx.add_violation(case, v, obs, shrunk=True)
            ctx.excluded_buckets.add(v.bucket)


def _run_machine(ctx, shard, nshards):
    """Stateful parts.  Hypothesis' own shrinker replays the history many times in the same process; a violation of a
    history property usually means hidden state, which makes those replays non-reproducible (Hypothesis then reports Flaky).
    So the failing history is recorded as soon as the invariant fails and minimised afterwards by removing steps and replaying
    each candidate in a fresh forked child (part.replay)."""
    import hypothesis
    from hypothesis.stateful import run_state_machine_as_test
    part = ctx.part
    n = max(1, part.max_examples // nshards)
    for attempt in range(2):
        ctx.last_fail = None
        cls = part.machine()
        try:
            run_state_machine_as_test(hypothesis.seed(derive_seed(ctx.seed, part.name, shard, attempt))(cls),
                                      settings=hyp_settings(n, steps=part.steps, shrink=False))
            return
        except BaseException:
            if ctx.last_fail is None:
                raise
            case, v, obs = ctx.last_fail
            case = _minimise_trace(ctx, part, case, v)
            ctx.add_violation(case, v, obs, shrunk=True)
            ctx.excluded_buckets.add(v.bucket)


def _fails_in_fresh_child(part, case, kind, allowance=120):
    ctxm = mp.get_context('fork')
    rd, wr = ctxm.Pipe(duplex=False)

    def body():
        try:
            r = part.replay(case)
            wr.send(any(v.kind == kind for v in r.violations))
        except BaseException:
            wr.send(False)
        os._exit(0)
    p = ctxm.Process(target=body)
    p.start()
    wr.close()
    ok = False
    if rd.poll(allowance):
        ok = rd.recv()
    p.kill()
    p.join()
    return ok


def _minimise_trace(ctx, part, case, v, budget=12):
    """greedy step removal; a candidate is kept only if it still fails in a fresh child"""
    if part.replay is None or not isinstance(case, dict) or 'trace' not in case:
        return case
    trace = list(case['trace'])
    if not _fails_in_fresh_child(part, {'trace': trace}, v.kind):
        return dict(case, note='history did not reproduce in a fresh process (state from earlier histories in the same worker was involved)')
    i = 0
    while i < len(trace) and budget > 0 and len(trace) > 1:
        ctx.heartbeat()
        cand = trace[:i] + trace[i + 1:]
        budget -= 1
        if _fails_in_fresh_child(part, {'trace': cand}, v.kind):
            trace = cand
        else:
            i += 1
    return {'trace': trace}


def _child(check, part, shard, nshards, findings, slot, beat, tier, seed, outpath):
    global _CURRENT
    signal.signal(signal.SIGINT, signal.SIG_DFL)
    ctx = Ctx(check, part, findings, slot, beat, tier, seed)
    _CURRENT = ctx
    status = 'ok'
    err = None
    try:
        if part.kind == 'enum':
            _run_enum(ctx, shard, nshards)
        elif part.kind == 'hyp':
            _run_hyp(ctx, shard, nshards)
        elif part.kind == 'machine':
            _run_machine(ctx, shard, nshards)
        else:
            part.run(ctx)
    except BaseException:
        status = 'error'
        err = traceback.format_exc()
    with open(outpath + '.tmp', 'wb') as f:
        pickle.dump({'status': status, 'error': err, 'stats': ctx.stats}, f)
    os.rename(outpath + '.tmp', outpath)
    sys.stdout.flush()
    os._exit(0)


# --------------------------------------------------------------------------------------------------
# parent: scheduling, watchdog, reporting
# --------------------------------------------------------------------------------------------------
def _plan(parts):
    jobs = []
    for part in parts:
        if part.kind == 'custom':
            n = 1
        elif part.shards:
            n = part.shards
        elif part.kind == 'enum':
            n = NPROC
        else:
            n = max(1, min(NPROC, part.max_examples // max(1, part.min_shard)))
        for k in range(n):
            jobs.append((part, k, n))
    # heavy parts first so that the tail is short
    jobs.sort(key=lambda j: -j[0].weight)
    return jobs


def run_parts(check, parts, findings, tier, seed, workdir):
    ctxm = mp.get_context('fork')
    jobs = _plan(parts)
    slots = [ctxm.Array('c', SLOT_BYTES, lock=False) for _ in range(NPROC)]
    beats = [ctxm.Value('L', 0, lock=False) for _ in range(NPROC)]
    running = {}     # slot index -> dict
    total = Stats()
    per_part = {}
    errors = []
    queue = list(jobs)
    jobno = 0
    while queue or running:
        while queue and len(running) < NPROC:
            part, k, n = queue.pop(0)
            idx = [i for i in range(NPROC) if i not in running][0]
            beats[idx].value = 0
            slots[idx].value = b''
            out = os.path.join(workdir, 'job%05d.pkl' % jobno)
            jobno += 1
            sys.stdout.flush()
            p = ctxm.Process(target=_child, args=(check, part, k, n, findings, slots[idx], beats[idx], tier, seed, out))
            p.start()
            running[idx] = {'p': p, 'part': part, 'k': k, 'n': n, 'out': out, 'beat': 0, 't': time.time()}
        time.sleep(0.05)
        now = time.time()
        for idx in list(running):
            j = running[idx]
            p = j['p']
            b = beats[idx].value
            if b != j['beat']:
                j['beat'], j['t'] = b, now
            if not p.is_alive():
                p.join()
                del running[idx]
                if os.path.exists(j['out']):
                    with open(j['out'], 'rb') as f:
                        res = pickle.load(f)
                    os.unlink(j['out'])
                    if res['status'] != 'ok':
                        errors.append('part %s shard %d: %s' % (j['part'].name, j['k'], res['error']))
                    total.merge(res['stats'])
                    per_part.setdefault(j['part'].name, Stats()).merge(res['stats'])
                else:
                    errors.append('part %s shard %d: worker died (exit code %s) while running %s' % (
                        j['part'].name, j['k'], p.exitcode, slots[idx].value[:300]))
            elif j['part'].kind != 'custom' and now - j['t'] > j['part'].hang_s:
                case_txt = slots[idx].value.decode('utf-8', 'replace')
                p.kill()
                p.join()
                del running[idx]
                hang = {'part': j['part'].name, 'shard': j['k'], 'case': case_txt, 'allowance_s': j['part'].hang_s}
                total.hangs.append(hang)
                per_part.setdefault(j['part'].name, Stats()).hangs.append(hang)
    return total, per_part, errors


def write_replay(prop, rec):
    d = os.path.join(env.VERIF, 'replays', prop)
    os.makedirs(d, exist_ok=True)
    name = hashlib.sha1(canon([rec['part'], rec['case'], rec['violation']['kind']]).encode()).hexdigest()[:16] + '.json'
    path = os.path.join(d, name)
    with open(path, 'w', encoding='utf-8') as f:
        json.dump(rec, f, indent=1, ensure_ascii=False, default=str, sort_keys=True)
    return os.path.relpath(path, env.VERIF)


def replay_case(check, parts, findings, part_name, case):
    part = [p for p in parts if p.name == part_name]
    if not part:
        raise env.HarnessError('no part named %r' % part_name)
    part = part[0]
    global _CURRENT
    ctx = Ctx(check, part, findings)
    _CURRENT = ctx
    fn = part.replay or part.fn
    if fn is None:
        raise env.HarnessError('part %s has no replay function' % part_name)
    r = fn(case)
    return r


def _replay_guarded(check, parts, findings, part_name, case, allowance=60):
    """Replay in a forked child so that a non-returning call cannot block the check."""
    ctxm = mp.get_context('fork')
    rd, wr = ctxm.Pipe(duplex=False)

    def body():
        try:
            r = replay_case(check, parts, findings, part_name, case)
            wr.send(('ok', [(v.kind, v.detail, v.sig, v.bucket) for v in r.violations], r.obs))
        except BaseException:
            wr.send(('error', traceback.format_exc(), None))
        os._exit(0)

    p = ctxm.Process(target=body)
    p.start()
    wr.close()
    t0 = time.time()
    while time.time() - t0 < allowance:
        if rd.poll(0.05):
            msg = rd.recv()
            p.join()
            if msg[0] == 'error':
                raise env.HarnessError('replay of %s failed: %s' % (part_name, msg[1]))
            return [V(*t) for t in msg[1]], msg[2]
        if not p.is_alive() and not rd.poll(0):
            raise env.HarnessError('replay worker died')
    p.kill()
    p.join()
    return [V('NO_RETURN', {'allowance_s': allowance}, bucket='NO_RETURN')], None


def main(check, argv=None):
    import argparse
    ap = argparse.ArgumentParser()
    ap.add_argument('--tier', default=os.environ.get('VERIF_TIER', 'quick'), choices=['quick', 'thorough'])
    ap.add_argument('--replay')
    ap.add_argument('--parts', help='comma separated part-name prefixes (development aid)')
    args = ap.parse_args(argv)
    seed = int(os.environ.get('VERIF_SEED', '1') or 1)
    prop = check.ID
    t0 = time.time()
    try:
        env.bootstrap()
        findings = Findings(prop, getattr(check, 'PREDICATES', {}))
        parts = check.parts(args.tier, seed)
        if args.replay:
            with open(args.replay, encoding='utf-8') as f:
                rec = json.load(f)
            vs, obs = _replay_guarded(check, parts, findings, rec['part'], rec['case'])
            bad = [v for v in vs if not findings.match(rec['case'], v)]
            print('replay %s part=%s case=%s' % (prop, rec['part'], canon(rec['case'])[:400]))
            print('observed: %s' % canon(obs)[:800])
            for v in vs:
                print('  violation kind=%s detail=%s' % (v.kind, canon(v.detail)[:600]))
            if bad:
                print('VIOLATION property=%s replay=%s' % (prop, args.replay))
                return 1
            print('no violation')
            return 0
        workdir = os.path.join(env.VERIF, '.work', '%s-%d' % (prop, os.getpid()))
        shutil.rmtree(workdir, ignore_errors=True)
        os.makedirs(workdir)
        lines = []
        nviol = 0
        # 1. replay tier: reproducers of known findings and of fixed defects
        known_seen = {}
        for f in findings.findings:
            still = 0
            for rep in f.get('reproducers', []):
                vs, _ = _replay_guarded(check, parts, findings, rep['part'], rep['case'])
                if any(findings.match(rep['case'], v) == f['id'] for v in vs):
                    still += 1
                for v in vs:
                    if not findings.match(rep['case'], v):
                        path = write_replay(prop, {'property': prop, 'part': rep['part'], 'case': rep['case'],
                                                   'violation': v.to_json(), 'seed': seed, 'origin': 'reproducer of ' + f['id']})
                        lines.append('VIOLATION property=%s replay=%s' % (prop, path))
                        nviol += 1
            known_seen[f['id']] = still
            if still or not f.get('reproducers'):
                lines.append('KNOWN-FINDING: property=%s %s [%s]' % (prop, f['what'], f['id']))
            else:
                lines.append('RESOLVED-FINDING: property=%s %s [%s] no reproducer fails any more' % (prop, f['what'], f['id']))
        fixed_checked = 0
        for f in findings.fixed:
            for rep in f.get('reproducers', []):
                fixed_checked += 1
                vs, _ = _replay_guarded(check, parts, findings, rep['part'], rep['case'])
                for v in vs:
                    if not findings.match(rep['case'], v):
                        path = write_replay(prop, {'property': prop, 'part': rep['part'], 'case': rep['case'],
                                                   'violation': v.to_json(), 'seed': seed,
                                                   'origin': 'regression of fixed defect: ' + f['what']})
                        lines.append('VIOLATION property=%s replay=%s' % (prop, path))
                        nviol += 1
        # 2. search
        if args.parts:
            pre = args.parts.split(',')
            parts = [p for p in parts if any(p.name.startswith(x) for x in pre)]
        if hasattr(check, 'warm'):
            check.warm(args.tier)       # build models once in the parent; forked workers inherit them
        total, per_part, errors = run_parts(check, parts, findings, args.tier, seed, workdir)
        shutil.rmtree(workdir, ignore_errors=True)
        if errors:
            sys.stderr.write('HARNESS ERROR (%d worker errors, first shown): %s\n' % (len(errors), errors[0]))
            return 2
        seen = set()
        per_bucket = {}
        # shortest cases first: at most MAX_PER_BUCKET replay files per root-cause bucket
        for rec in sorted(total.violations, key=lambda r: (not r.get('shrunk'), len(canon(r['case'])))):
            key = canon([rec['part'], rec['case'], rec['violation']['kind']])
            b = rec['violation']['bucket']
            if key in seen or per_bucket.get(b, 0) >= MAX_PER_BUCKET:
                continue
            seen.add(key)
            per_bucket[b] = per_bucket.get(b, 0) + 1
            rec = dict(rec, property=prop, seed=seed, tier=args.tier)
            path = write_replay(prop, rec)
            lines.append('VIOLATION property=%s replay=%s' % (prop, path))
            print('  %s part=%s kind=%s case=%s detail=%s' % (prop, rec['part'], rec['violation']['kind'],
                                                            canon(rec['case'])[:300], canon(rec['violation']['detail'])[:400]))
            nviol += 1
        inconclusive = []
        confirmed_hangs = 0
        for hgn in total.hangs:
            part = [p for p in parts if p.name == hgn['part']][0]
            if part.hang_is_violation and confirmed_hangs < 2:
                try:
                    case = json.loads(hgn['case'])
                except ValueError:
                    case = None
                confirmed = False
                if case is not None:
                    vs, _ = _replay_guarded(check, parts, findings, part.name, case, allowance=180)
                    confirmed = any(v.kind == 'NO_RETURN' for v in vs)
                if confirmed:
                    confirmed_hangs += 1
                    rec = {'property': prop, 'part': part.name, 'case': case, 'seed': seed,
                           'violation': {'kind': 'NO_RETURN', 'detail': hgn, 'sig': None, 'bucket': 'NO_RETURN'}}
                    lines.append('VIOLATION property=%s replay=%s' % (prop, write_replay(prop, rec)))
                    nviol += 1
                    continue
            inconclusive.append(hgn)
        wall = time.time() - t0
        ev = {
            'property_id': prop, 'tier': args.tier, 'seed': seed, 'level': 'exploration',
            'coverage': {
                'evaluations': total.evals,
                'cases': total.cases,
                'distinct_nontrivial': len(total.nt),
                'rule': check.RULE,
                'samples': _pick_samples(per_part),
                'exhaustive': bool(parts) and all(p.exhaustive for p in parts) and not total.hangs,
                'exhaustive_parts': [p.name for p in parts if p.exhaustive],
                'parts': {name: {'cases': s.cases, 'evaluations': s.evals, 'distinct_nontrivial': len(s.nt)}
                          for name, s in sorted(per_part.items())},
                'classes': dict(sorted(total.labels.items())),
                'known_findings_hit': dict(sorted(total.known.items())),
                'known_finding_reproducers_still_failing': known_seen,
                'fixed_reproducers_replayed': fixed_checked,
                'excluded_by_construction': total.excluded,
                'violation_buckets': dict(sorted(total.vcount.items())),
                'inconclusive_no_return': inconclusive[:10],
                'extra': total.extra,
            },
            'assumptions': list(getattr(check, 'ASSUMPTIONS', [])) + COMMON_ASSUMPTIONS,
            'wall_s': round(wall, 2),
            'violations': nviol,
        }
        os.makedirs(os.path.join(env.VERIF, 'evidence'), exist_ok=True)
        with open(os.path.join(env.VERIF, 'evidence', prop + '.json'), 'w', encoding='utf-8') as f:
            json.dump(ev, f, indent=1, ensure_ascii=False, default=str)
            f.write('\n')
        if COLLECT:
            for b, n in sorted(total.vcount.items(), key=lambda kv: -kv[1]):
                print('BUCKET %6d  %s' % (n, b))
        for hgn in inconclusive:
            print('INCONCLUSIVE property=%s part=%s shard=%s: no progress for %ss, worker stopped; last case: %s' % (
                prop, hgn['part'], hgn['shard'], hgn['allowance_s'], hgn['case'][:300]))
        for ln in lines:
            print(ln)
        print('%s tier=%s seed=%d cases=%d evaluations=%d distinct_nontrivial=%d known_hits=%d violations=%d wall=%.1fs' % (
            prop, args.tier, seed, total.cases, total.evals, len(total.nt), sum(total.known.values()), nviol, wall))
        if total.evals < 1 or len(total.nt) < 2:
            sys.stderr.write('HARNESS ERROR: vacuous run (evaluations=%d, non-trivial=%d)\n' % (total.evals, len(total.nt)))
            return 2
        return 1 if nviol else 0
    except env.HarnessError as e:
        sys.stderr.write('HARNESS ERROR: %s\n' % e)
        return 2
    except Exception:
        sys.stderr.write('HARNESS ERROR: %s\n' % traceback.format_exc())
        return 2


def _pick_samples(per_part, limit=10):
    out = []
    names = sorted(per_part)
    i = 0
    while len(out) < limit and names:
        progressed = False
        for n in names:
            s = per_part[n].samples
            if i < len(s) and len(out) < limit:
                out.append(json.loads(json.dumps(s[i], default=str, ensure_ascii=False)))
                progressed = True
        if not progressed:
            break
        i += 1
    return out


COMMON_ASSUMPTIONS = [
    'packages under test are imported from the repository working tree (asserted at start-up)',
    'shims/datedelta.py and shims/grapheme stand in for two packages that cannot be installed offline',
    'CPython 3.12 in /venv, regex/emoji as installed there',
]
