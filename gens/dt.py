"""Shared machinery for the date-time checks (C06-C11): model access, reference-date strategies, surface layouts of
absolute dates and clock times (month/weekday names typed into the harness, not read from the repository), and the
value-shape oracle of C11."""
import calendar
import datetime as dt
import re

from hypothesis import strategies as st

_MODELS = {}
DT_CULTURES = ['en-us', 'es-es', 'fr-fr', 'pt-br', 'it-it', 'de-de', 'nl-nl', 'zh-cn']


def model(culture, options=0):
    key = (culture, options)
    if key not in _MODELS:
        from recognizers_date_time.date_time.date_time_recognizer import DateTimeRecognizer
        from recognizers_date_time.date_time.utilities import DateTimeOptions
        r = DateTimeRecognizer(culture, DateTimeOptions(options))
        _MODELS[key] = r.get_datetime_model(culture, False)
    return _MODELS[key]


def parse(culture, query, ref_iso, options=0):
    ref = dt.datetime.fromisoformat(ref_iso)
    out = []
    for r in model(culture, options).parse(query, ref):
        res = r.resolution
        out.append({'text': r.text, 'start': r.start, 'end': r.end, 'type': r.type_name,
                    'values': None if res is None else res.get('values'), 'timex_str': getattr(r, 'timex_str', None)})
    return out


def covers(ent, q, pos, expr):
    """entity covers the expression; blanks at the two ends of the slice are tolerated (as in C01)"""
    return ent['start'] <= pos and ent['end'] >= pos + len(expr) - 1 and q[ent['start']:ent['end'] + 1].strip() == expr.strip()


# ---- reference datetimes -------------------------------------------------------------------------------------------------
def boundary_refs():
    out = []
    for y in (1999, 2000, 2015, 2016, 2019, 2020, 2021, 2024, 2026, 2032, 2087):
        for m, d in ((1, 1), (1, 2), (1, 3), (1, 4), (1, 31), (2, 28), (3, 1), (3, 29), (3, 30), (3, 31), (5, 31), (7, 4), (10, 31), (11, 7),
                     (12, 28), (12, 29), (12, 30), (12, 31)):
            out.append(dt.datetime(y, m, d, 0, 0, 0))
            out.append(dt.datetime(y, m, d, 12, 30, 0))
        if calendar.isleap(y):
            out.append(dt.datetime(y, 2, 29, 0, 0, 0))
            out.append(dt.datetime(y, 2, 29, 23, 59, 59))
    base = dt.datetime(2018, 7, 2, 9, 15, 0)
    for i in range(7):
        out.append(base + dt.timedelta(days=i))
    return out


_BREFS = None


def refs():
    global _BREFS
    if _BREFS is None:
        _BREFS = boundary_refs()
    rnd = st.datetimes(min_value=dt.datetime(1950, 1, 1), max_value=dt.datetime(2090, 12, 31, 23, 59, 59)).map(lambda d: d.replace(microsecond=0))
    midnight = rnd.map(lambda d: d.replace(hour=0, minute=0, second=0))
    # a reference as datetime.now() delivers it carries microseconds
    micro = st.builds(lambda d, us: d.replace(microsecond=us), st.one_of(rnd, st.sampled_from(_BREFS)), st.sampled_from([1, 999999, 123456, 500000]))
    return st.one_of(rnd, midnight, st.sampled_from(_BREFS), st.sampled_from(_BREFS), micro).map(lambda d: d.isoformat())


# ---- absolute date layouts -----------------------------------------------------------------------------------------------
MONTHS = {
    'en': ['January', 'February', 'March', 'April', 'May', 'June', 'July', 'August', 'September', 'October', 'November', 'December'],
    'es': ['enero', 'febrero', 'marzo', 'abril', 'mayo', 'junio', 'julio', 'agosto', 'septiembre', 'octubre', 'noviembre', 'diciembre'],
    'fr': ['janvier', 'février', 'mars', 'avril', 'mai', 'juin', 'juillet', 'août', 'septembre', 'octobre', 'novembre', 'décembre'],
    'pt': ['janeiro', 'fevereiro', 'março', 'abril', 'maio', 'junho', 'julho', 'agosto', 'setembro', 'outubro', 'novembro', 'dezembro'],
    'it': ['gennaio', 'febbraio', 'marzo', 'aprile', 'maggio', 'giugno', 'luglio', 'agosto', 'settembre', 'ottobre', 'novembre', 'dicembre'],
    'de': ['Januar', 'Februar', 'März', 'April', 'Mai', 'Juni', 'Juli', 'August', 'September', 'Oktober', 'November', 'Dezember'],
    'nl': ['januari', 'februari', 'maart', 'april', 'mei', 'juni', 'juli', 'augustus', 'september', 'oktober', 'november', 'december'],
}
EN_ABBR = ['Jan', 'Feb', 'Mar', 'Apr', 'May', 'Jun', 'Jul', 'Aug', 'Sep', 'Oct', 'Nov', 'Dec']
EN_WEEKDAYS = ['Monday', 'Tuesday', 'Wednesday', 'Thursday', 'Friday', 'Saturday', 'Sunday']


def ordinal_suffix(d):
    if 11 <= d % 100 <= 13:
        return 'th'
    return {1: 'st', 2: 'nd', 3: 'rd'}.get(d % 10, 'th')


EN_LAYOUTS = {
    'iso': lambda d: d.isoformat(),
    'm/d/yyyy': lambda d: '%d/%d/%d' % (d.month, d.day, d.year),
    'mm/dd/yyyy': lambda d: '%02d/%02d/%d' % (d.month, d.day, d.year),
    'm-d-yyyy': lambda d: '%d-%d-%d' % (d.month, d.day, d.year),
    'yyyy/m/d': lambda d: '%d/%d/%d' % (d.year, d.month, d.day),
    'Month d, yyyy': lambda d: '%s %d, %d' % (MONTHS['en'][d.month - 1], d.day, d.year),
    'Month d yyyy': lambda d: '%s %d %d' % (MONTHS['en'][d.month - 1], d.day, d.year),
    'Month dth, yyyy': lambda d: '%s %d%s, %d' % (MONTHS['en'][d.month - 1], d.day, ordinal_suffix(d.day), d.year),
    'd Month yyyy': lambda d: '%d %s %d' % (d.day, MONTHS['en'][d.month - 1], d.year),
    'dth Month yyyy': lambda d: '%d%s %s %d' % (d.day, ordinal_suffix(d.day), MONTHS['en'][d.month - 1], d.year),
    'dth of Month yyyy': lambda d: '%d%s of %s %d' % (d.day, ordinal_suffix(d.day), MONTHS['en'][d.month - 1], d.year),
    'Mon d, yyyy': lambda d: '%s %d, %d' % (EN_ABBR[d.month - 1], d.day, d.year),
    'Mon. d, yyyy': lambda d: '%s. %d, %d' % (EN_ABBR[d.month - 1], d.day, d.year),
    'd-Mon-yyyy': lambda d: '%d-%s-%d' % (d.day, EN_ABBR[d.month - 1], d.year),
    'Weekday, Month d, yyyy': lambda d: '%s, %s %d, %d' % (EN_WEEKDAYS[d.weekday()], MONTHS['en'][d.month - 1], d.day, d.year),
    'month d yyyy lower': lambda d: ('%s %d %d' % (MONTHS['en'][d.month - 1], d.day, d.year)).lower(),
}


def _dm(sep):
    return lambda d: '%d%s%d%s%d' % (d.day, sep, d.month, sep, d.year)


def _dm2(sep):
    return lambda d: '%02d%s%02d%s%d' % (d.day, sep, d.month, sep, d.year)


OTHER_LAYOUTS = {
    'es-es': {'iso': lambda d: d.isoformat(), 'd/m/yyyy': _dm('/'), 'dd/mm/yyyy': _dm2('/'), 'd-m-yyyy': _dm('-'),
              'd de mes de yyyy': lambda d: '%d de %s de %d' % (d.day, MONTHS['es'][d.month - 1], d.year)},
    'fr-fr': {'iso': lambda d: d.isoformat(), 'd/m/yyyy': _dm('/'), 'dd/mm/yyyy': _dm2('/'), 'd-m-yyyy': _dm('-'),
              'd mois yyyy': lambda d: '%d %s %d' % (d.day, MONTHS['fr'][d.month - 1], d.year)},
    'pt-br': {'iso': lambda d: d.isoformat(), 'd/m/yyyy': _dm('/'), 'dd/mm/yyyy': _dm2('/'), 'd-m-yyyy': _dm('-'),
              'd de mes de yyyy': lambda d: '%d de %s de %d' % (d.day, MONTHS['pt'][d.month - 1], d.year)},
    'it-it': {'iso': lambda d: d.isoformat(), 'd/m/yyyy': _dm('/'), 'dd/mm/yyyy': _dm2('/'), 'd-m-yyyy': _dm('-'),
              'd mese yyyy': lambda d: '%d %s %d' % (d.day, MONTHS['it'][d.month - 1], d.year)},
    'de-de': {'iso': lambda d: d.isoformat(), 'd/m/yyyy': _dm('/'), 'd.m.yyyy': _dm('.'), 'd-m-yyyy': _dm('-'),
              'd. Monat yyyy': lambda d: '%d. %s %d' % (d.day, MONTHS['de'][d.month - 1], d.year)},
    'nl-nl': {'iso': lambda d: d.isoformat(), 'd/m/yyyy': _dm('/'), 'dd/mm/yyyy': _dm2('/'), 'd-m-yyyy': _dm('-'),
              'd maand yyyy': lambda d: '%d %s %d' % (d.day, MONTHS['nl'][d.month - 1], d.year)},
    'zh-cn': {'iso': lambda d: d.isoformat(), 'yyyy年m月d日': lambda d: '%d年%d月%d日' % (d.year, d.month, d.day),
              'yyyy/m/d': lambda d: '%d/%d/%d' % (d.year, d.month, d.day)},
}
def _first_only(fmt, lang):
    return lambda d: (fmt % (MONTHS[lang][d.month - 1], d.year)) if d.day == 1 else None


def _en_ordinal_word(d):
    from gens import numwords
    return numwords.en_ord(d.day)


# day written as an ordinal (word or sign): forms that the numeric/month-name patterns do not read, so that they take the parsers'
# "number with month" path; None = the form does not exist for that day
ORDINAL_LAYOUTS = {
    'en-us': {'ordinal-word of Month yyyy': lambda d: '%s of %s %d' % (_en_ordinal_word(d), MONTHS['en'][d.month - 1], d.year),
              'the dth of Month, yyyy': lambda d: 'the %d%s of %s, %d' % (d.day, ordinal_suffix(d.day), MONTHS['en'][d.month - 1], d.year)},
    'pt-br': {'1º de mes de yyyy': _first_only('1º de %s de %d', 'pt'), 'primeiro de mes de yyyy': _first_only('primeiro de %s de %d', 'pt')},
    'es-es': {'1º de mes de yyyy': _first_only('1º de %s de %d', 'es'), 'primero de mes de yyyy': _first_only('primero de %s de %d', 'es')},
    'it-it': {'1° mese yyyy': _first_only('1° %s %d', 'it'), 'primo mese yyyy': _first_only('primo %s %d', 'it')},
    'fr-fr': {'1er mois yyyy': _first_only('1er %s %d', 'fr'), 'premier mois yyyy': _first_only('premier %s %d', 'fr')},
    'nl-nl': {'de maand yyyy': lambda d: '%de %s %d' % (d.day, MONTHS['nl'][d.month - 1], d.year),
              'eerste maand yyyy': _first_only('eerste %s %d', 'nl')},
    'de-de': {'zweiten Monat yyyy': lambda d: ('zweiten %s %d' % (MONTHS['de'][d.month - 1], d.year)) if d.day == 2 else None},
}


def any_layout(culture, name):
    ls = layouts(culture)
    return ls[name] if name in ls else ORDINAL_LAYOUTS[culture][name]


DATE_CARRIERS = {
    'en-us': ['{}', '{}', 'I will go back on {}', 'the report is due {} at the latest', '{}.', 'it was {}, 2 of us went.'],
    'es-es': ['{}', '{}', 'volveré el {}', '{}.'], 'fr-fr': ['{}', '{}', 'je reviendrai le {}', '{}.'], 'pt-br': ['{}', '{}', 'voltarei em {}', '{}.'],
    'it-it': ['{}', '{}', 'ci vediamo {} allora', '{}.'], 'de-de': ['{}', '{}', 'ich komme am {} zurück'], 'nl-nl': ['{}', '{}', 'ik kom terug op {}', '{}.'],
    'zh-cn': ['{}', '{}', '我会在{}回来', '{}。'],
}


def layouts(culture):
    return EN_LAYOUTS if culture == 'en-us' else OTHER_LAYOUTS[culture]


def dates(lo=dt.date(1900, 1, 1), hi=dt.date(2099, 12, 31)):
    special = []
    for y in (1900, 1904, 1999, 2000, 2016, 2019, 2020, 2024, 2096, 2099):
        for m in range(1, 13):
            special.append(dt.date(y, m, calendar.monthrange(y, m)[1]))
            special.append(dt.date(y, m, 1))
        for m, d in ((2, 28), (3, 4), (4, 3), (12, 11), (11, 12), (1, 10), (10, 1)):
            special.append(dt.date(y, m, d))
    special = [d for d in special if lo <= d <= hi]
    return st.one_of(st.dates(lo, hi), st.sampled_from(special))


# ---- C11 value-shape oracle -------------------------------------------------------------------------------------------------
DATE_RE = re.compile(r'^(\d{4})-(\d{2})-(\d{2})$')
TIME_RE = re.compile(r'^(\d{2}):(\d{2}):(\d{2})$')
DATETIME_RE = re.compile(r'^(\d{4})-(\d{2})-(\d{2}) (\d{2}):(\d{2}):(\d{2})$')
DEF_DATE_TX = re.compile(r'^(\d{4})-(\d{2})-(\d{2})$')
DEF_TIME_TX = re.compile(r'^T(\d{2})(?::(\d{2})(?::(\d{2}))?)?$')
DEF_DT_TX = re.compile(r'^(\d{4})-(\d{2})-(\d{2})T(\d{2})(?::(\d{2})(?::(\d{2}))?)?$')
NOT_RESOLVED = 'not resolved'


def ok_date(s):
    m = DATE_RE.match(s) if isinstance(s, str) else None
    if not m:
        return False
    try:
        dt.date(int(m.group(1)), int(m.group(2)), int(m.group(3)))
        return True
    except ValueError:
        return False


def ok_time(s):
    m = TIME_RE.match(s) if isinstance(s, str) else None
    return bool(m) and int(m.group(1)) < 24 and int(m.group(2)) < 60 and int(m.group(3)) < 60


def ok_datetime(s):
    return isinstance(s, str) and len(s) == 19 and s[10] == ' ' and ok_date(s[:10]) and ok_time(s[11:])


def ok_number(s):
    try:
        float(s)
        return isinstance(s, str) and s == s.strip() and s.lower() not in ('nan', 'inf', '-inf')
    except (TypeError, ValueError):
        return False


def shape_violations(ent):
    """List of (kind, detail) for one entity of the date-time model (default options).  Entities without resolution
    (parser could not resolve) carry no values and are not violations."""
    out = []
    vals = ent.get('values')
    if vals is None:
        return out
    tn = ent['type']
    for v in vals:
        t = v.get('type')
        if tn != 'datetimeV2.' + str(t):
            out.append(('TYPE_NAME_MISMATCH', {'type_name': tn, 'value': v}))
        timex = v.get('timex')
        val = v.get('value')
        if t == 'date':
            if val != NOT_RESOLVED and not ok_date(val):
                out.append(('BAD_DATE_VALUE', v))
            if isinstance(timex, str) and DEF_DATE_TX.match(timex) and val != NOT_RESOLVED and val != timex:
                out.append(('VALUE_NOT_TIMEX', v))
            if isinstance(timex, str) and DEF_DATE_TX.match(timex) and not ok_date(timex) and val != NOT_RESOLVED:
                out.append(('INVALID_DATE_RESOLVED', v))
        elif t == 'time':
            if val != NOT_RESOLVED and not ok_time(val):
                out.append(('BAD_TIME_VALUE', v))
            m = DEF_TIME_TX.match(timex) if isinstance(timex, str) else None
            if m and val != NOT_RESOLVED:
                exp = '%s:%s:%s' % (m.group(1), m.group(2) or '00', m.group(3) or '00')
                if val != exp:
                    out.append(('VALUE_NOT_TIMEX', v))
        elif t == 'datetime':
            if val != NOT_RESOLVED and not ok_datetime(val):
                out.append(('BAD_DATETIME_VALUE', v))
            m = DEF_DT_TX.match(timex) if isinstance(timex, str) else None
            if m and val != NOT_RESOLVED:
                exp = '%s-%s-%s %s:%s:%s' % (m.group(1), m.group(2), m.group(3), m.group(4), m.group(5) or '00', m.group(6) or '00')
                if val != exp:
                    out.append(('VALUE_NOT_TIMEX', v))
        elif t == 'duration':
            if val != NOT_RESOLVED and not ok_number(val):
                out.append(('BAD_DURATION_VALUE', v))
        elif t in ('daterange', 'timerange', 'datetimerange'):
            chk = {'daterange': ok_date, 'timerange': ok_time, 'datetimerange': ok_datetime}[t]
            if val == NOT_RESOLVED:
                continue
            s, e = v.get('start'), v.get('end')
            if s is None and e is None:
                out.append(('RANGE_WITHOUT_ENDPOINTS', v))
            for k, x in (('start', s), ('end', e)):
                if x is not None and x != NOT_RESOLVED and not chk(x):
                    out.append(('BAD_RANGE_' + k.upper(), v))
            if t == 'daterange' and s is not None and e is not None and ok_date(s) and ok_date(e) and not s < e:
                out.append(('DATERANGE_START_NOT_BEFORE_END', v))
        elif t == 'set':
            pass
        else:
            out.append(('UNKNOWN_VALUE_TYPE', v))
    return out
