"""Independent number-to-words functions (orthography typed into the harness from the grammars of the languages,
not read from the repository's tables).  Used by C04 (oracle = inverse of these functions) and by sentence generators."""
import re

# ---------------------------------------------------------------- English
EN_ONES = "zero one two three four five six seven eight nine ten eleven twelve thirteen fourteen fifteen sixteen seventeen eighteen nineteen".split()
EN_TENS = "_ _ twenty thirty forty fifty sixty seventy eighty ninety".split()
EN_SCALES = ["", "thousand", "million", "billion", "trillion"]
EN_ORD = {'one': 'first', 'two': 'second', 'three': 'third', 'five': 'fifth', 'eight': 'eighth', 'nine': 'ninth', 'twelve': 'twelfth'}


def en(n, use_and=False, hyphen=True):
    if n == 0:
        return "zero"

    def b1000(g):
        parts = []
        h, r = divmod(g, 100)
        if h:
            parts.append(EN_ONES[h] + " hundred")
        if r:
            if h and use_and:
                parts.append("and")
            if r < 20:
                parts.append(EN_ONES[r])
            else:
                t, o = divmod(r, 10)
                parts.append(EN_TENS[t] + (("-" if hyphen else " ") + EN_ONES[o] if o else ""))
        return " ".join(parts)
    groups = []
    i = 0
    while n:
        n, g = divmod(n, 1000)
        groups.append((g, i))
        i += 1
    nonzero = [x for x in groups if x[0]]
    out = []
    for g, i in reversed(groups):
        if not g:
            continue
        s = b1000(g)
        if i == 0 and use_and and g < 100 and len(nonzero) > 1:
            s = "and " + s
        out.append(s + (" " + EN_SCALES[i] if i else ""))
    return " ".join(out)


def en_ord(n, use_and=False, hyphen=True):
    c = en(n, use_and, hyphen)
    m = re.search(r'([a-z]+)$', c)
    w = m.group(1)
    o = EN_ORD.get(w) or (w[:-1] + 'ieth' if w.endswith('y') else w + 'th')
    return c[:m.start(1)] + o


# ---------------------------------------------------------------- Spanish
def es(n):
    U = ['cero', 'uno', 'dos', 'tres', 'cuatro', 'cinco', 'seis', 'siete', 'ocho', 'nueve', 'diez', 'once', 'doce', 'trece', 'catorce', 'quince',
         'dieciséis', 'diecisiete', 'dieciocho', 'diecinueve', 'veinte', 'veintiuno', 'veintidós', 'veintitrés', 'veinticuatro', 'veinticinco',
         'veintiséis', 'veintisiete', 'veintiocho', 'veintinueve']
    T = ['', '', '', 'treinta', 'cuarenta', 'cincuenta', 'sesenta', 'setenta', 'ochenta', 'noventa']
    H = ['', 'ciento', 'doscientos', 'trescientos', 'cuatrocientos', 'quinientos', 'seiscientos', 'setecientos', 'ochocientos', 'novecientos']

    def b100(n, apoc):
        if n < 30:
            if apoc and n == 1:
                return 'un'
            if apoc and n == 21:
                return 'veintiún'
            return U[n]
        t, u = divmod(n, 10)
        return T[t] + (' y ' + ('un' if (apoc and u == 1) else U[u]) if u else '')

    def b1000(n, apoc=False):
        if n == 100:
            return 'cien'
        h, r = divmod(n, 100)
        return (H[h] + (' ' if h and r else '') + (b100(r, apoc) if r else '')).strip()

    def b1e6(n, apoc=False):
        th, r = divmod(n, 1000)
        s = ''
        if th:
            s = 'mil' if th == 1 else b1000(th, True) + ' mil'
        if r:
            s += (' ' if s else '') + b1000(r, apoc)
        return s
    if n == 0:
        return 'cero'
    mi, r = divmod(n, 10 ** 6)
    s = ''
    if mi:
        s = 'un millón' if mi == 1 else b1e6(mi, True) + ' millones'
    if r:
        s += (' ' if s else '') + b1e6(r)
    return s


# ---------------------------------------------------------------- French (France, 1990 hyphenation not used)
def fr(n):
    U = ['zéro', 'un', 'deux', 'trois', 'quatre', 'cinq', 'six', 'sept', 'huit', 'neuf', 'dix', 'onze', 'douze', 'treize', 'quatorze', 'quinze',
         'seize', 'dix-sept', 'dix-huit', 'dix-neuf']
    T = ['', '', 'vingt', 'trente', 'quarante', 'cinquante', 'soixante']

    def b100(n, final):
        if n < 20:
            return U[n]
        if n < 70:
            t, u = divmod(n, 10)
            return T[t] if u == 0 else (T[t] + ' et un' if u == 1 else T[t] + '-' + U[u])
        if n < 80:
            return 'soixante et onze' if n == 71 else 'soixante-' + U[n - 60]
        if n == 80:
            return 'quatre-vingts' if final else 'quatre-vingt'
        return 'quatre-vingt-' + U[n - 80]

    def b1000(n, final=True):
        h, r = divmod(n, 100)
        if h == 0:
            return b100(r, final)
        s = 'cent' if h == 1 else U[h] + ' cent' + ('s' if (r == 0 and final) else '')
        return s + (' ' + b100(r, final) if r else '')
    if n == 0:
        return 'zéro'
    if n < 1000:
        return b1000(n)
    parts = []
    bi, rest = divmod(n, 10 ** 9)
    mi, rest = divmod(rest, 10 ** 6)
    th, r = divmod(rest, 1000)
    if bi:
        parts.append(b1000(bi) + (' milliard' if bi == 1 else ' milliards'))
    if mi:
        parts.append(b1000(mi) + (' million' if mi == 1 else ' millions'))
    if th:
        parts.append('mille' if th == 1 else b1000(th, False) + ' mille')
    if r:
        parts.append(b1000(r))
    return ' '.join(parts)


# ---------------------------------------------------------------- Portuguese (Brazil)
def pt(n):
    U = ['zero', 'um', 'dois', 'três', 'quatro', 'cinco', 'seis', 'sete', 'oito', 'nove', 'dez', 'onze', 'doze', 'treze', 'quatorze', 'quinze',
         'dezesseis', 'dezessete', 'dezoito', 'dezenove']
    T = ['', '', 'vinte', 'trinta', 'quarenta', 'cinquenta', 'sessenta', 'setenta', 'oitenta', 'noventa']
    H = ['', 'cento', 'duzentos', 'trezentos', 'quatrocentos', 'quinhentos', 'seiscentos', 'setecentos', 'oitocentos', 'novecentos']

    def b1000(n):
        if n == 100:
            return 'cem'
        h, r = divmod(n, 100)
        parts = []
        if h:
            parts.append(H[h])
        if r:
            if r < 20:
                parts.append(U[r])
            else:
                t, u = divmod(r, 10)
                parts.append(T[t] + (' e ' + U[u] if u else ''))
        return ' e '.join(parts)
    if n == 0:
        return 'zero'
    if n < 1000:
        return b1000(n)
    groups = []
    mi, rest = divmod(n, 10 ** 6)
    th, r = divmod(rest, 1000)
    if mi:
        groups.append(('um milhão' if mi == 1 else pt(mi) + ' milhões', mi))
    if th:
        groups.append(('mil' if th == 1 else b1000(th) + ' mil', th))
    s = ' '.join(g for g, _ in groups)
    if r:
        # "e" before the last group when it is < 100 or a round hundred
        s += (' e ' if (r < 100 or r % 100 == 0) else ' ') + b1000(r)
    return s


# ---------------------------------------------------------------- Italian
def it(n):
    U = ['zero', 'uno', 'due', 'tre', 'quattro', 'cinque', 'sei', 'sette', 'otto', 'nove', 'dieci', 'undici', 'dodici', 'tredici', 'quattordici',
         'quindici', 'sedici', 'diciassette', 'diciotto', 'diciannove']
    T = ['', '', 'venti', 'trenta', 'quaranta', 'cinquanta', 'sessanta', 'settanta', 'ottanta', 'novanta']

    def b100(n):
        if n < 20:
            return U[n]
        t, u = divmod(n, 10)
        w = T[t]
        if u in (1, 8):
            w = w[:-1]
        return w + (U[u] if u else '')

    def b1000(n):
        h, r = divmod(n, 100)
        s = ('cento' if h == 1 else U[h] + 'cento') if h else ''
        return s + (b100(r) if r else '')
    if n == 0:
        return 'zero'
    if n < 1000:
        return b1000(n)
    mi, rest = divmod(n, 10 ** 6)
    th, r = divmod(rest, 1000)
    s = ''
    if mi:
        s = ('un milione' if mi == 1 else it(mi) + ' milioni')
    low = ''
    if th:
        low = 'mille' if th == 1 else b1000(th) + 'mila'
    if r:
        low += b1000(r)
    return (s + (' ' if s and low else '') + low)


# ---------------------------------------------------------------- German
def de(n):
    U = ['null', 'ein', 'zwei', 'drei', 'vier', 'fünf', 'sechs', 'sieben', 'acht', 'neun', 'zehn', 'elf', 'zwölf', 'dreizehn', 'vierzehn',
         'fünfzehn', 'sechzehn', 'siebzehn', 'achtzehn', 'neunzehn']
    T = ['', '', 'zwanzig', 'dreißig', 'vierzig', 'fünfzig', 'sechzig', 'siebzig', 'achtzig', 'neunzig']

    def b100(n, final):
        if n == 1:
            return 'eins' if final else 'ein'
        if n < 20:
            return U[n]
        t, u = divmod(n, 10)
        return (U[u] + 'und' if u else '') + T[t]

    def b1000(n, final=True):
        h, r = divmod(n, 100)
        return (U[h] + 'hundert' if h else '') + (b100(r, final) if r else '')
    if n == 0:
        return 'null'
    mi, rest = divmod(n, 10 ** 6)
    th, r = divmod(rest, 1000)
    parts = []
    if mi:
        parts.append('eine Million' if mi == 1 else b1000(mi, False) + ' Millionen')
    low = ''
    if th:
        low += b1000(th, False) + 'tausend'
    if r:
        low += b1000(r)
    if low:
        parts.append(low)
    return ' '.join(parts)


# ---------------------------------------------------------------- Dutch
def nl(n):
    U = ['nul', 'een', 'twee', 'drie', 'vier', 'vijf', 'zes', 'zeven', 'acht', 'negen', 'tien', 'elf', 'twaalf', 'dertien', 'veertien', 'vijftien',
         'zestien', 'zeventien', 'achttien', 'negentien']
    T = ['', '', 'twintig', 'dertig', 'veertig', 'vijftig', 'zestig', 'zeventig', 'tachtig', 'negentig']

    def b100(n):
        if n < 20:
            return U[n]
        t, u = divmod(n, 10)
        if not u:
            return T[t]
        join = 'ën' if U[u].endswith('e') else 'en'
        return U[u] + join + T[t]

    def b1000(n):
        h, r = divmod(n, 100)
        s = ('honderd' if h == 1 else U[h] + 'honderd') if h else ''
        return s + (b100(r) if r else '')
    if n == 0:
        return 'nul'
    if n < 1000:
        return b1000(n)
    mi, rest = divmod(n, 10 ** 6)
    th, r = divmod(rest, 1000)
    parts = []
    if mi:
        parts.append(('een' if mi == 1 else b1000(mi)) + ' miljoen')
    if th:
        parts.append('duizend' if th == 1 else b1000(th) + 'duizend')
    if r:
        parts.append(b1000(r))
    return ' '.join(parts)


# ---------------------------------------------------------------- Chinese / Japanese
def zh(n):
    D = '零一二三四五六七八九'

    def b10000(n, lead):
        # n in 1..9999 ; lead: group is the leading group of the number
        s = ''
        zero = False
        for p, u in ((1000, '千'), (100, '百'), (10, '十'), (1, '')):
            d, n = divmod(n, p)
            if d:
                if zero and s:
                    s += '零'
                zero = False
                if p == 10 and d == 1 and lead and not s:
                    s += '十'
                else:
                    s += D[d] + u
            else:
                zero = True
        return s
    if n == 0:
        return '零'
    groups = []
    while n:
        n, g = divmod(n, 10000)
        groups.append(g)
    out = ''
    units = ['', '万', '亿', '万亿']
    pending_zero = False
    for i in range(len(groups) - 1, -1, -1):
        g = groups[i]
        if g == 0:
            pending_zero = bool(out)
            continue
        lead = (out == '')
        if out and (pending_zero or g < 1000):
            out += '零'
        pending_zero = False
        out += b10000(g, lead) + units[i]
    return out


def ja(n):
    D = '〇一二三四五六七八九'

    def b10000(n):
        s = ''
        for p, u in ((1000, '千'), (100, '百'), (10, '十'), (1, '')):
            d, n = divmod(n, p)
            if d:
                s += (D[d] if (d > 1 or p == 1) else '') + u
        return s
    if n == 0:
        return '零'
    groups = []
    while n:
        n, g = divmod(n, 10000)
        groups.append(g)
    units = ['', '万', '億', '兆']
    out = ''
    for i in range(len(groups) - 1, -1, -1):
        g = groups[i]
        if g:
            w = b10000(g)
            if i > 0 and g == 1000:
                w = '一千'
            out += w + units[i]
    return out


GENS = {'en-us': (en, 15), 'es-es': (es, 12), 'fr-fr': (fr, 12), 'pt-br': (pt, 9), 'it-it': (it, 9), 'de-de': (de, 9), 'nl-nl': (nl, 9),
        'zh-cn': (zh, 12), 'ja-jp': (ja, 12)}


