"""All registered (model, culture) pairs with default options, and a uniform way to run them."""
import datetime as dt

CULTURES = ['en-us', 'es-es', 'es-mx', 'fr-fr', 'pt-br', 'de-de', 'it-it', 'nl-nl', 'zh-cn', 'ja-jp']
_MODELS = {}


def models(culture):
    if culture in _MODELS:
        return _MODELS[culture]
    from recognizers_number.number.number_recognizer import NumberRecognizer
    from recognizers_number_with_unit.number_with_unit.number_with_unit_recognizer import NumberWithUnitRecognizer
    from recognizers_date_time.date_time.date_time_recognizer import DateTimeRecognizer
    from recognizers_sequence.sequence.sequence_recognizer import SequenceRecognizer
    from recognizers_choice.choice.recognizers_choice import ChoiceRecognizer
    out = {}
    for R, names in ((NumberRecognizer, ['number', 'ordinal', 'percentage']),
                     (NumberWithUnitRecognizer, ['age', 'currency', 'dimension', 'temperature']),
                     (DateTimeRecognizer, ['datetime']),
                     (SequenceRecognizer, ['phone_number', 'ip_address', 'mention', 'hashtag', 'email', 'url', 'guid']),
                     (ChoiceRecognizer, ['boolean'])):
        r = R(culture)
        for n in names:
            try:
                out[n] = getattr(r, 'get_%s_model' % n)(culture, False)
            except ValueError:
                pass
    _MODELS[culture] = out
    return out


def run_all(culture, query, ref_iso='2016-11-07T12:00:00', only=None):
    """{model name: [entity dicts]}; a model that raises is reported under key 'EXC:<name>'"""
    ref = dt.datetime.fromisoformat(ref_iso)
    res = {}
    for name, m in models(culture).items():
        if only and name not in only:
            continue
        rs = m.parse(query, ref) if name == 'datetime' else m.parse(query)
        res[name] = [{'text': r.text, 'start': r.start, 'end': r.end, 'type': r.type_name} for r in rs]
    return res


def warm():
    for c in CULTURES:
        models(c)
