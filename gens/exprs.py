"""Well-formed entity expressions of every family (the generators of C03-C10, C13, C20), as Hypothesis strategies of
{'culture', 'family', 'text'}; used by C01 (spans) and C12 (overlap)."""
from hypothesis import strategies as st

from checks import c03, c04, c05, c06, c07, c08, c09, c10, c13, c20
from gens import dt as G


def _en_only():
    fam = []
    fam.append(c07.seconds_cases().map(lambda k: ('time', c07.time_text(k))))
    fam.append(c07.composed_cases().map(lambda k: ('datetime', c07.build(dict(k, carrier='{}'))[2])))
    fam.append(c08.cases().map(lambda k: ('relative-date', c08.build(dict(k, carrier='{}'))[2])))
    fam.append(c09.cases().map(lambda k: ('yearless-date', c09.build(dict(k, carrier='{}'))[2])))
    fam.append(c10.range_cases().map(lambda k: ('range', c10.range_build(dict(k, carrier='{}'))[2])))
    fam.append(st.builds(lambda u, n: ('duration', c10.dur_build({'unit': u, 'n': n, 'carrier': '{}'})[2]), st.integers(0, 6), st.integers(1, 5000)))
    for strat in (c13.v4_cases(), c13.v6_cases(), c13.guid_cases(), c13.email_cases(), c13.url_cases(), c13.tag_cases(), c13.phone_cases()):
        fam.append(strat.map(lambda k: ('sequence:' + k['kind'], k['lit'])))
    fam.append(st.sampled_from(c20.alternatives()).map(lambda a: ('boolean', a[0])))
    return fam


def expressions(culture, small_numbers=False):
    """small_numbers: number words below 10^7 only (several long French numerals in one sentence take minutes to extract)"""
    fam = []
    if culture in c03.CONV:
        fam.append(c03.cases(culture).map(lambda k: ('digits', c03.literal(k) + ('%' if k.get('pct') else ''))))
    if culture in c04.BOUND:
        fam.append(c04.cases(culture).map(lambda k: ('number-words', c04.phrase(dict(k, n=k['n'] % 10 ** 7 if small_numbers else k['n'])))))
    if culture in G.DT_CULTURES:
        fam.append(c06.cases(culture).map(lambda k: ('date', c06.build(dict(k, carrier='{}'))[2])))
    units = [e for e in c05.table_entries() if e[0] == culture]
    if units:
        def unit_expr(i, numeral):
            c, t, kind, f, unit, epi = units[i % len(units)]
            return ('unit:' + t, c05.build_query({'culture': c, 'type': t, 'kind': kind, 'spelling': f, 'unit': unit, 'numeral': numeral,
                                                  'carrier': False})[2])
        fam.append(st.builds(unit_expr, st.integers(0, len(units) - 1), st.sampled_from(['int', 'dec'])))
        common = [i for i, e in enumerate(units) if e[3].lower() in ('usd', 'us$', '$', 'dollars', 'euros', 'eur', '€', 'kg', 'km', 'years old', 'degrees')]
        if common:
            fam.append(st.builds(lambda i, n: unit_expr(common[i % len(common)], n), st.integers(0, 50), st.sampled_from(['int', 'dec'])))
    if culture == 'en-us':
        fam.extend(_en_only())
    return st.one_of(fam).map(lambda t: {'culture': culture, 'family': t[0], 'text': t[1]})


FULLWIDTH = dict(zip('0123456789:-,/.()%', '０１２３４５６７８９：－，／．（）％'))


def widen(text, mask):
    """replace some ASCII digits/punctuation by their full-width forms (the documented, length-preserving recoding)"""
    out = []
    k = 0
    for ch in text:
        if ch in FULLWIDTH:
            if (mask >> (k % 30)) & 1:
                ch = FULLWIDTH[ch]
            k += 1
        out.append(ch)
    return ''.join(out)
