"""Well-formed entity expressions of every family (the generators of C03-C10, C13, C20), as Hypothesis strategies of
{'culture', 'family', 'text'}; used by C01 (spans) and C12 (overlap)."""
from hypothesis import strategies as st

from checks import c03, c04, c05, c06, c07, c08, c09, c10, c13, c20
from gens import dt as G


MODIFIERS = ['before', 'after', 'since', 'until', 'around', 'by', 'since around', 'before around', 'after around', 'starting from',
             'starting from around', 'as early as', 'any time from', 'no later than', 'prior to']
MOD_TARGETS = ['2pm today', '3pm', 'May 5th', 'May 5th 2019', '2012', 'next monday', 'last week', 'tomorrow', '2018-03-07', '3/7/2018 9:30am',
               'christmas', 'noon', 'the end of the month', 'january 2019']
EN_HOLIDAYS = ['christmas', 'christmas day', 'thanksgiving', 'new year', "new year's eve", 'easter', 'halloween', 'labor day', 'memorial day',
               "mother's day", "father's day", 'independence day', 'valentines day', 'black friday', 'cyber monday', 'martin luther king day']
EN_HOLIDAY_YEARS = ['', ' 2018', ' 2020', ' of 2019', ' next year', ' this year', ' last year']
ZH_HOLIDAYS = ['除夕', '春节', '元旦', '中秋节', '端午节', '国庆节', '圣诞节', '清明节', '元宵节', '劳动节', '儿童节', '教师节', '感恩节', '情人节', '母亲节', '父亲节']
ZH_HOLIDAY_YEARS = ['', '今年', '明年', '去年', '2018年', '18年', '后年', '2020年的']


def modifier_expressions():
    return st.builds(lambda m, t: ('modifier', m + ' ' + t), st.sampled_from(MODIFIERS), st.sampled_from(MOD_TARGETS))


def holiday_expressions(culture):
    if culture == 'zh-cn':
        return st.builds(lambda y, h: ('holiday', y + h), st.sampled_from(ZH_HOLIDAY_YEARS), st.sampled_from(ZH_HOLIDAYS))
    return st.builds(lambda h, y: ('holiday', h + y), st.sampled_from(EN_HOLIDAYS), st.sampled_from(EN_HOLIDAY_YEARS))


def compound_currency_expressions():
    def mk(i, a, b, n, m, j, c, extra):
        pairs = c05.compound_pairs()
        main, ms, iso, fname, fs, ratio = pairs[i % len(pairs)]
        first = '%d %s and %d %s' % (n, ms[a % len(ms)], 1 + m % max(1, ratio - 1), fs[b % len(fs)])
        main2, ms2, _, fname2, fs2, ratio2 = pairs[j % len(pairs)]
        if extra == 0:
            return ('compound-currency', first)
        if extra == 1:      # a split group whose second member absorbs a fraction
            return ('compound-currency', '%d %s and %d %s and %d %s' % (c, ms2[0], n, ms[a % len(ms)], 1 + m % max(1, ratio - 1), fs[b % len(fs)]))
        return ('compound-currency', '%d %s %d and %d %s %d %s' % (n, ms[a % len(ms)], 1 + m % 99, c, ms2[0], 1 + m % max(1, ratio2 - 1), fs2[0]))
    return st.builds(mk, st.integers(0, 500), st.integers(0, 5), st.integers(0, 5), st.integers(1, 999), st.integers(0, 998), st.integers(0, 500),
                     st.integers(1, 99), st.integers(0, 2))


def _en_only():
    fam = []
    fam.append(modifier_expressions())
    fam.append(holiday_expressions('en-us'))
    fam.append(compound_currency_expressions())
    # a currency amount with a unit on both sides (the extractor rewrites the thousands comma in a working copy of the input)
    fam.append(st.builds(lambda p, n, s: ('currency-both-sides', '%s%s%s' % (p, format(n, ','), s)), st.sampled_from(['$', 'us$', '€', '£']),
                         st.one_of(st.integers(1, 999), st.integers(1000, 10 ** 7)), st.sampled_from(['$', 'usd', ' usd', '€', ' dollars'])))
    fam.append(c07.seconds_cases().map(lambda k: ('time', c07.time_text(k))))
    fam.append(c07.composed_cases().map(lambda k: ('datetime', c07.build(dict(k, carrier='{}'))[2])))
    fam.append(c08.cases().map(lambda k: ('relative-date', c08.build(dict(k, carrier='{}'))[2])))
    fam.append(c09.cases().map(lambda k: ('yearless-date', c09.build(dict(k, carrier='{}'))[2])))
    fam.append(c10.range_cases().map(lambda k: ('range', c10.range_build(dict(k, carrier='{}'))[2])))
    fam.append(st.builds(lambda u, n: ('duration', c10.dur_build({'unit': u, 'n': n, 'carrier': '{}'})[2]), st.integers(0, 6), st.integers(1, 5000)))
    for strat in (c13.v4_cases(), c13.v6_cases(), c13.guid_cases(), c13.email_cases(), c13.url_cases(), c13.tag_cases(), c13.phone_cases()):
        fam.append(strat.map(lambda k: ('sequence:' + k['kind'], k['lit'])))
    fam.append(st.sampled_from(c20.alternatives()).map(lambda a: ('boolean', a[0])))
    return fam


def expressions(culture, small_numbers=False):
    """small_numbers: number words below 10^7 only (several long French numerals in one sentence take minutes to extract)"""
    fam = []
    if culture in c03.CONV:
        fam.append(c03.cases(culture).map(lambda k: ('digits', c03.literal(k) + ('%' if k.get('pct') else ''))))
    if culture in c04.BOUND:
        fam.append(c04.cases(culture).map(lambda k: ('number-words', c04.phrase(dict(k, n=k['n'] % 10 ** 7 if small_numbers else k['n'])))))
    if culture in G.DT_CULTURES:
        fam.append(c06.cases(culture).map(lambda k: ('date', c06.build(dict(k, carrier='{}'))[2])))
    units = [e for e in c05.table_entries() if e[0] == culture]
    if units:
        def unit_expr(i, numeral):
            c, t, kind, f, unit, epi = units[i % len(units)]
            return ('unit:' + t, c05.build_query({'culture': c, 'type': t, 'kind': kind, 'spelling': f, 'unit': unit, 'numeral': numeral,
                                                  'carrier': False})[2])
        fam.append(st.builds(unit_expr, st.integers(0, len(units) - 1), st.sampled_from(['int', 'dec'])))
        common = [i for i, e in enumerate(units) if e[3].lower() in ('usd', 'us$', '$', 'dollars', 'euros', 'eur', '€', 'kg', 'km', 'years old', 'degrees')]
        if common:
            fam.append(st.builds(lambda i, n: unit_expr(common[i % len(common)], n), st.integers(0, 50), st.sampled_from(['int', 'dec'])))
    if culture == 'zh-cn':
        fam.append(holiday_expressions('zh-cn'))
    if culture == 'en-us':
        fam.extend(_en_only())
    return st.one_of(fam).map(lambda t: {'culture': culture, 'family': t[0], 'text': t[1]})


FULLWIDTH = dict(zip('0123456789:-,/.()%', '０１２３４５６７８９：－，／．（）％'))


def widen(text, mask):
    """replace some ASCII digits/punctuation by their full-width forms (the documented, length-preserving recoding)"""
    out = []
    k = 0
    for ch in text:
        if ch in FULLWIDTH:
            if (mask >> (k % 30)) & 1:
                ch = FULLWIDTH[ch]
            k += 1
        out.append(ch)
    return ''.join(out)
