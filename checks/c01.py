"""C01 - entity spans point at the text they claim to have recognised.

Oracle independent of the code: 0 <= start <= end < len(query) (integers) and, with norm = my own table of the 24 documented
full-width -> ASCII replacements followed by per-character lower-casing that keeps the length,
norm(query)[start:end+1].strip() == norm(entity.text).strip().
"""
import glob
import json
import os

from hypothesis import strategies as st

from gens import allmodels, exprs
from lib import corpus, env
from lib.engine import R, V, enum_part, hyp_part

ID = 'C01'
RULE = ('every registered (model, culture) pair (16 model types x the cultures that register them, default options) applied to: (1) every '
        'Python-supported Specs input of the culture (ALL models of the culture, not only the one the spec file is about; 25% sample in the quick '
        'tier); (2) generated well-formed expressions of the families of C03-C10, C13, C20 embedded in carriers with leading/trailing blanks and '
        'full-width variants of digits/punctuation; (3) token soup of 1-12 tokens from a closed pool (words of the supported spec inputs of the '
        'culture, numerals, punctuation, full-width and CJK forms, U+0130, sharp s, U+01C5, special unit tokens GB/MB); one case = one query run '
        'through all models of its culture; non-trivial = some model returned an entity with start > 0; distinct = (culture, query)')
ASSUMPTIONS = ['the 24 full-width replacements of QueryProcessor.preprocess are the documented normalisation; my table is typed independently',
               'exceptions inside a model are swallowed by Model.parse by design: results disappear, which is not this property\'s concern']

FW = dict(zip('０１２３４５６７８９：－，／ＧＭＴＫｋ．（）％、', '0123456789:-,/GMTKk.()%,'))
CARRIERS = {
    'en-us': ['{}', ' {} ', 'well , {} it is', 'i think {} works', '  note : {} .'],
    'es-es': ['{}', ' {} ', 'pues {} entonces'], 'es-mx': ['{}', ' {} ', 'pues {} entonces'], 'fr-fr': ['{}', ' {} ', 'alors {} voilà'],
    'pt-br': ['{}', ' {} ', 'então {} pronto'], 'de-de': ['{}', ' {} ', 'also {} genau'], 'it-it': ['{}', ' {} ', 'allora {} ecco'],
    'nl-nl': ['{}', ' {} ', 'dus {} precies'], 'zh-cn': ['{}', ' {} ', '那么{}好的'], 'ja-jp': ['{}', ' {} ', 'では{}です'],
}
EXTRA = ['5', '12', '2016', '3.5', '1,000', '30%', '$', '-', '/', ':', '.', ',', '(', ')', '１２', '：', '％', '、', '五', '十', '月', '日', 'İ', 'ß', 'ǅ',
         '１０：３０', '2 GB', '3 MB', 'İİ', '#tag', '@me', '10.0.0.1', 'yes']


def norm(s):
    out = []
    for c in s:
        c = FW.get(c, c)
        lc = c.lower()
        out.append(lc[0])      # U+0130 is the only character whose lower-case form is longer: keep its first character
    return ''.join(out)


def span_violations(culture, query, results):
    nq = norm(query)
    if len(nq) != len(query):
        raise RuntimeError('oracle normalisation changed the length of %r' % query)
    vs = []
    maxstart = -1
    n = 0
    for name, ents in results.items():
        for e in ents:
            n += 1
            s, t = e['start'], e['end']
            sig = [culture, name, query]
            if not (isinstance(s, int) and isinstance(t, int) and not isinstance(s, bool) and 0 <= s <= t < len(query)):
                vs.append(V('OFFSETS_OUT_OF_RANGE', {'culture': culture, 'model': name, 'query': query, 'entity': e, 'len': len(query)},
                            sig=sig + ['OFFSETS_OUT_OF_RANGE'], bucket='RANGE:%s:%s' % (culture, name)))
                continue
            maxstart = max(maxstart, s)
            if nq[s:t + 1].strip() != norm(e['text'] or '').strip():
                vs.append(V('TEXT_IS_NOT_THE_SLICE', {'culture': culture, 'model': name, 'query': query, 'entity': e, 'slice': query[s:t + 1]},
                            sig=sig + ['TEXT_IS_NOT_THE_SLICE'], bucket='TEXT:%s:%s' % (culture, name)))
    return vs, maxstart, n


def pred_zh_empty_entity(case, v):
    """known finding: zh-cn date-time model, repeated 之前/以前 expressions: an entity with empty text, empty sub-type and end = start - 1"""
    d = v.detail or {}
    e = d.get('entity') or {}
    return d.get('culture') == 'zh-cn' and d.get('model') == 'datetime' and e.get('text') == '' and e.get('type') == 'datetimeV2.'


PREDICATES = {'c01_zh_empty_entity': pred_zh_empty_entity}


def run_query(case):
    culture, q = case['culture'], case['q']
    results = allmodels.run_all(culture, q, case.get('ref', '2016-11-07T12:00:00'))
    vs, maxstart, n = span_violations(culture, q, results)
    return R(vs, nontrivial=maxstart > 0, labels=['src:' + case.get('src', '?'), 'culture:' + culture, 'entities:%d' % min(n, 3)],
             obs={'query': q, 'entities': {k: v for k, v in results.items() if v}}, key=[culture, q], evals=len(results))


# ---- sources ------------------------------------------------------------------------------------------------------------
def corpus_cases(frac, seed, salt=7):
    def gen():
        for i, e in enumerate(corpus.entries()):
            if e['culture'] not in allmodels.CULTURES:
                continue
            if frac >= 1 or (i * 2654435761 + seed * salt) % 100 < frac * 100:
                yield {'culture': e['culture'], 'q': e['input'], 'ref': e['ref'], 'src': 'corpus'}
    return gen


def generated_cases(culture):
    def mk(x, ci, mask, wide):
        text = exprs.widen(x['text'], mask) if wide else x['text']
        cs = CARRIERS[culture]
        return {'culture': culture, 'q': cs[ci % len(cs)].format(text), 'src': 'generated', 'family': x['family']}
    return st.builds(mk, exprs.expressions(culture, small_numbers=(culture == 'fr-fr')), st.integers(0, 9), st.integers(0, 2 ** 30 - 1), st.sampled_from([False, False, True]))


_WORDS = {}


def words(culture):
    if culture not in _WORDS:
        ws = set()
        for e in corpus.entries():
            if e['culture'] == culture:
                ws.update(e['input'].split())
        _WORDS[culture] = sorted(ws)
    return _WORDS[culture]


def soup_cases(culture):
    ws = words(culture)
    cjk = culture in ('zh-cn', 'ja-jp')
    tok = st.one_of(st.sampled_from(ws), st.sampled_from(ws), st.sampled_from(EXTRA))
    sep = st.sampled_from(['', '', ' '] if cjk else [' ', ' ', ' ', '', '  '])

    def mk(toks, seps):
        q = ''
        for i, t in enumerate(toks):
            q += t + (seps[i % len(seps)] if i < len(toks) - 1 else '')
        return {'culture': culture, 'q': q, 'src': 'soup'}
    return st.builds(mk, st.lists(tok, min_size=1, max_size=12), st.lists(sep, min_size=1, max_size=4))


def warm(tier):
    allmodels.warm()
    corpus.entries()
    for c in allmodels.CULTURES:
        words(c)
    from checks import c05
    c05.table_entries()


def parts(tier, seed):
    q = tier == 'quick'
    ps = [enum_part('corpus-all-models', corpus_cases(0.25 if q else 1, seed), run_query, exhaustive=not q, weight=3)]
    per_g = {'en-us': 1500} if q else {'en-us': 20000}
    for c in allmodels.CULTURES:
        ng = per_g.get(c, 400 if q else 4500)
        ps.append(hyp_part('generated-' + c, (lambda c=c: generated_cases(c)), run_query, ng, min_shard=100))
        ps.append(hyp_part('soup-' + c, (lambda c=c: soup_cases(c)), run_query, 400 if q else 4000, min_shard=100))
    return ps
