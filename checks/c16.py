"""C16 - tokenizers and dictionary matching.

Oracles: (a) structural invariants of the token list, (b) differential against reference tokenizers written
from the documented rules in a different style (character classes + run splitting), (c) naive reference
matcher over reference tokens, compared as multisets of (start, length, text, sorted ids).
"""
import itertools
import unicodedata  # noqa: F401  (kept for ad-hoc debugging of character classes)

from hypothesis import strategies as st

from lib.engine import R, V, enum_part, hyp_part

ID = 'C16'
RULE = ('tokenizer cases: every string up to a length bound over a small alphabet (exhaustive) + Hypothesis strings up to 40 chars; '
        'matcher cases: every (query, single phrase) pair up to small bounds (exhaustive) + Hypothesis dictionaries of 1-30 phrases in '
        'list / list+ids / dict form with queries biased to contain inserted phrases glued to neighbours; histories on ONE matcher object '
        '(dictionary grown by further init/insert calls after searches, token-level searches consumed lazily and interleaved, searches from '
        '2-4 threads at once), every search compared with the reference matcher for the dictionary at that moment; non-trivial = tokenizer input '
        'with >= 2 tokens of which two are adjacent without a blank, or matcher case with >= 1 expected match that touches a non-blank '
        'neighbour or a phrase that is a token-prefix of another, or a history that searches after the dictionary grew / interleaves lazy searches / uses threads; distinct = distinct (tokenizer, input) / (tokenizer, dictionary, query)')
ASSUMPTIONS = ['reference tokenizers use str.isspace/isalpha/isdigit of CPython (the documented character classes)',
               'phrases contain at least one non-blank character (precondition every caller in the repository enforces)']

ALPHA = ['a', 'b', 'Z', '1', '2', '$', '-', '.', '中', '日', 'あ', '한', ' ', '\t', 'ß', '１', 'ｦ', 'é', ',']
SMALL7 = ['a', 'Z', '1', '$', '-', '中', ' ']
SMALL8 = ['a', 'Z', '1', '$', '-', '中', ' ', '한']
MSMALL = ['a', '1', '$', ' ', '中']


# ---- reference tokenizers -----------------------------------------------------------------------------------------
def _in(c, *ranges):
    o = ord(c)
    return any(lo <= o <= hi for lo, hi in ranges)


def _chinese(c):
    return _in(c, (0x4E00, 0x9FBF), (0x3400, 0x4DBF))


def _japanese(c):
    return _in(c, (0x3040, 0x309F), (0x30A0, 0x30FF), (0xFF66, 0xFF9D))


def _korean(c):
    return _in(c, (0xAC00, 0xD7AF), (0x1100, 0x11FF), (0x3130, 0x318F), (0xFFB0, 0xFFDC))


def char_class(c, unit):
    """S blank, X single-character token, L letter, D digit, $ currency glue (unit tokenizer only)."""
    if c.isspace():
        return 'S'
    if unit:
        if _chinese(c) or _japanese(c):
            return 'X'
        if c == '$':
            return '$'
    else:
        if _chinese(c) or _japanese(c) or _korean(c):
            return 'X'
    if c.isalpha():
        return 'L'
    if c.isdigit():
        return 'D'
    return 'X'


def ref_tokenize(s, unit):
    classes = [char_class(c, unit) for c in s]
    toks = []
    i = 0
    n = len(s)
    while i < n:
        k = classes[i]
        if k == 'S':
            i += 1
        elif k == 'X':
            toks.append((i, 1))
            i += 1
        else:
            j = i + 1
            while j < n and classes[j] in 'LD$':
                if unit:
                    a, b = classes[j - 1], classes[j]
                    if {a, b} == {'L', 'D'} or {a, b} == {'D', '$'}:
                        break
                j += 1
            toks.append((i, j - i))
            i = j
    return [(a, ln, s[a:a + ln]) for a, ln in toks]


def get_tokenizer(name):
    from recognizers_text.matcher.simple_tokenizer import SimpleTokenizer
    from recognizers_text.matcher.number_with_unit_tokenizer import NumberWithUnitTokenizer
    return NumberWithUnitTokenizer() if name == 'unit' else SimpleTokenizer()


def run_tok(case):
    name, s = case['tok'], case['s']
    toks = get_tokenizer(name).tokenize(s)
    got = [(t.start, t.length, t.text) for t in toks]
    vs = []
    covered = set()
    prev_end = 0
    for (a, ln, tx), t in zip(got, toks):
        if not (isinstance(a, int) and isinstance(ln, int)) or ln < 1 or a < prev_end or a + ln > len(s):
            vs.append(V('TOKEN_OFFSETS', {'s': s, 'token': [a, ln, tx]}, bucket='TOK_OFFSETS:' + name))
            break
        if s[a:a + ln] != tx or t.end != a + ln:
            vs.append(V('TOKEN_TEXT', {'s': s, 'token': [a, ln, tx], 'slice': s[a:a + ln]}, bucket='TOK_TEXT:' + name))
        if any(ch.isspace() for ch in tx):
            vs.append(V('TOKEN_HAS_BLANK', {'s': s, 'token': [a, ln, tx]}, bucket='TOK_BLANK:' + name))
        covered.update(range(a, a + ln))
        prev_end = a + ln
    if not vs:
        want = {i for i, ch in enumerate(s) if not ch.isspace()}
        if covered != want:
            vs.append(V('TOKEN_COVERAGE', {'s': s, 'missing': sorted(want - covered), 'extra': sorted(covered - want)},
                        bucket='TOK_COVER:' + name))
    ref = ref_tokenize(s, name == 'unit')
    if got != ref:
        vs.append(V('TOKEN_DIFF', {'s': s, 'got': got, 'reference': ref}, bucket='TOK_DIFF:' + name))
    glued = any(ref[i][0] + ref[i][1] == ref[i + 1][0] for i in range(len(ref) - 1))
    return R(vs, nontrivial=len(ref) >= 2 and glued, labels=['tok:' + name, 'tokens:%s' % min(len(ref), 5)],
             obs={'tokens': [list(t) for t in got[:12]]}, key=[name, s])


# ---- matcher --------------------------------------------------------------------------------------------------------
def ref_find(query, entries, unit):
    qt = ref_tokenize(query, unit)
    texts = [t[2] for t in qt]
    groups = {}
    order = []
    for pid, phrase in entries:
        key = tuple(t[2] for t in ref_tokenize(phrase, unit))
        if key not in groups:
            groups[key] = []
            order.append(key)
        groups[key].append(pid)
    out = []
    touching = False
    for i in range(len(texts)):
        for key in order:
            n = len(key)
            if tuple(texts[i:i + n]) == key:
                start = qt[i][0]
                end = qt[i + n - 1][0] + qt[i + n - 1][1]
                out.append((start, end - start, query[start:end], tuple(sorted(groups[key]))))
                if (start > 0 and not query[start - 1].isspace()) or (end < len(query) and not query[end].isspace()):
                    touching = True
    prefix = any(a != b and len(a) < len(b) and b[:len(a)] == a for a in order for b in order)
    return out, touching, prefix


def run_match(case):
    from recognizers_text.matcher.string_matcher import StringMatcher
    unit = case['tok'] == 'unit'
    entries = [(e[0], e[1]) for e in case['entries']]
    query = case['query']
    form = case['form']
    m = StringMatcher(tokenizer=get_tokenizer(case['tok'])) if (unit or case.get('explicit_tok')) else StringMatcher()
    if form == 'list':
        entries = [(p, p) for _, p in entries]      # ids default to the phrase itself
        m.init([p for _, p in entries])
    elif form == 'ids':
        m.init([p for _, p in entries], [i for i, _ in entries])
    else:
        d = {}
        for i, p in entries:
            d.setdefault(i, []).append(p)
        m.init(d)
        entries = [(i, p) for i in d for p in d[i]]
    got = []
    for r in m.find(query):
        got.append((r.start, r.length, r.text, tuple(sorted(str(x) for x in r.canonical_values))))
    exp, touching, prefix = ref_find(query, entries, unit)
    exp = [(a, b, c, tuple(sorted(str(x) for x in d))) for a, b, c, d in exp]
    vs = []
    if sorted(got) != sorted(exp):
        missing = [list(x) for x in exp if x not in got]
        extra = [list(x) for x in got if x not in exp]
        kind = 'MATCH_MISSED' if missing and not extra else 'MATCH_EXTRA' if extra and not missing else 'MATCH_DIFF'
        vs.append(V(kind, {'query': query, 'entries': case['entries'], 'missing': missing[:5], 'extra': extra[:5]},
                    bucket=kind + ':' + case['tok']))
    for (a, ln, tx, _ids) in got:
        if query[a:a + ln] != tx:
            vs.append(V('MATCH_TEXT', {'query': query, 'match': [a, ln, tx]}, bucket='MATCH_TEXT:' + case['tok']))
    return R(vs, nontrivial=bool(exp) and (touching or prefix),
             labels=['match:' + case['tok'], 'form:' + form, 'has_match' if exp else 'no_match'] + (['prefix_phrase'] if prefix else []),
             obs={'matches': [list(x) for x in got[:6]]}, key=[case['tok'], form, case['entries'], query])


# ---- histories on one matcher ----------------------------------------------------------------------------------------
def ref_find_tokens(texts, entries, unit):
    """token-level expectation: (first token index, number of tokens, sorted distinct ids)"""
    groups = {}
    for pid, phrase in entries:
        groups.setdefault(tuple(t[2] for t in ref_tokenize(phrase, unit)), set()).add(str(pid))
    out = []
    for i in range(len(texts)):
        for key, ids in groups.items():
            if key and tuple(texts[i:i + len(key)]) == key:
                out.append((i, len(key), tuple(sorted(ids))))
    return sorted(out)


def run_history(case):
    """one matcher object, a generated history of operations on it: dictionaries added in several steps (init again, insert), complete
    searches, token-level searches consumed lazily and interleaved with other searches, searches from several threads at once.  Every
    search must return exactly what the reference matcher finds for the dictionary as it stands at that moment."""
    import sys
    import threading
    from recognizers_text.matcher.string_matcher import StringMatcher
    unit = case['tok'] == 'unit'
    m = StringMatcher(tokenizer=get_tokenizer(case['tok']))
    entries = []
    open_gens = []      # [generator, token texts, collected]
    vs = []
    finds = 0
    after_growth = False
    grown = False

    def snap(r):
        return (r.start, r.length, tuple(sorted({str(x) for x in r.canonical_values})))

    def check_full(q, got, how):
        exp, _, _ = ref_find(q, entries, unit)
        exp = sorted((a, b, c, tuple(sorted({str(x) for x in d}))) for a, b, c, d in exp)
        if sorted(got) != exp:
            vs.append(V('HISTORY_MATCH_DIFF', {'history': case['ops'], 'query': q, 'how': how, 'missing': [list(x) for x in exp if x not in got][:4],
                                               'extra': [list(x) for x in got if x not in exp][:4]}, bucket='HISTORY:' + how))

    def full(q):
        return [(r.start, r.length, r.text, tuple(sorted({str(x) for x in r.canonical_values}))) for r in m.find(q)]

    def drain():
        # finish the open lazy searches round-robin, one result at a time
        while any(g[0] is not None for g in open_gens):
            for g in open_gens:
                if g[0] is not None:
                    try:
                        g[2].append(snap(next(g[0])))
                    except StopIteration:
                        g[0] = None
                    except Exception as e:      # noqa: BLE001 - a crash of the search is a finding of this check
                        g[0] = None
                        g[2].append((-1, -1, ('raised ' + type(e).__name__,)))
        for g in open_gens:
            exp = ref_find_tokens(g[1], g[3], unit)
            if sorted(g[2]) != exp:
                vs.append(V('HISTORY_MATCH_DIFF', {'history': case['ops'], 'tokens': g[1], 'how': 'lazy', 'expected': [list(x) for x in exp][:6],
                                                   'got': [list(x) for x in g[2]][:6]}, bucket='HISTORY:lazy'))
        del open_gens[:]

    for op in case['ops']:
        if vs:
            break
        kind = op[0]
        if kind in ('init', 'insert'):
            drain()
            if kind == 'init':
                es = [(e[0], e[1]) for e in op[2]]
                if op[1] == 'list':
                    es = [(p, p) for _, p in es]
                    m.init([p for _, p in es])
                elif op[1] == 'ids':
                    m.init([p for _, p in es], [i for i, _ in es])
                else:
                    d = {}
                    for i, p in es:
                        d.setdefault(i, []).append(p)
                    m.init(d)
                entries.extend(es)
            else:
                m.matcher.insert([t[2] for t in ref_tokenize(op[2], unit)], op[1])
                entries.append((op[1], op[2]))
            if finds:
                grown = True
        elif kind == 'find':
            finds += 1
            after_growth = after_growth or grown
            check_full(op[1], full(op[1]), 'find')
        elif kind == 'lazy':
            finds += 1
            texts = [t[2] for t in ref_tokenize(op[1], unit)]
            open_gens.append([iter(m.find(texts)), texts, [], list(entries)])
        elif kind == 'step':
            live = [g for g in open_gens if g[0] is not None]
            if live:
                g = live[op[1] % len(live)]
                try:
                    g[2].append(snap(next(g[0])))
                except StopIteration:
                    g[0] = None
                except Exception as e:      # noqa: BLE001
                    g[0] = None
                    g[2].append((-1, -1, ('raised ' + type(e).__name__,)))
        elif kind == 'threads':
            finds += 1
            qs = op[1]
            outs = [None] * len(qs)
            barrier = threading.Barrier(len(qs))

            def work(k):
                barrier.wait(timeout=30)
                try:
                    for _ in range(3):
                        outs[k] = full(qs[k])
                except Exception as e:      # noqa: BLE001
                    outs[k] = [(-1, -1, type(e).__name__, ())]
            old = sys.getswitchinterval()
            sys.setswitchinterval(1e-5)
            try:
                ths = [threading.Thread(target=work, args=(k,)) for k in range(len(qs))]
                for t in ths:
                    t.start()
                for t in ths:
                    t.join()
            finally:
                sys.setswitchinterval(old)
            for k, q in enumerate(qs):
                check_full(q, outs[k], 'threads')
    if not vs:
        drain()
    kinds = {op[0] for op in case['ops']}
    return R(vs, nontrivial=after_growth or ('lazy' in kinds and 'step' in kinds) or 'threads' in kinds,
             labels=['history', 'tok:' + case['tok']] + (['grown-after-find'] if after_growth else []) + sorted('op:' + k for k in kinds),
             obs={'ops': len(case['ops']), 'phrases': len(entries)}, key=[case['tok'], case['ops']])


def history_cases():
    phrase = st.text(st.sampled_from(ALPHA), min_size=1, max_size=5).filter(lambda p: p.strip() != '')
    pool = st.lists(phrase, min_size=2, max_size=8, unique=True)
    ids = st.sampled_from(['id1', 'id2', 'id3', 'X'])

    def with_ops(ps):
        some = st.sampled_from(ps)
        seg = st.one_of(some, some, st.text(st.sampled_from(ALPHA), max_size=2), st.sampled_from([' ', ' ', '']))
        query = st.lists(seg, min_size=1, max_size=7).map(lambda x: ''.join(x)[:30])
        entries = st.lists(st.tuples(ids, some).map(list), min_size=1, max_size=4)
        op = st.one_of(
            st.tuples(st.just('init'), st.sampled_from(['list', 'ids', 'dict']), entries).map(list),
            st.tuples(st.just('insert'), ids, some).map(list),
            st.tuples(st.just('find'), query).map(list), st.tuples(st.just('find'), query).map(list),
            st.tuples(st.just('lazy'), query).map(list),
            st.tuples(st.just('step'), st.integers(0, 3)).map(list), st.tuples(st.just('step'), st.integers(0, 3)).map(list),
            st.tuples(st.just('threads'), st.lists(query, min_size=2, max_size=4)).map(list))
        first = st.tuples(st.just('init'), st.sampled_from(['list', 'ids', 'dict']), entries).map(list)
        return st.builds(lambda f, ops, tok: {'tok': tok, 'ops': [f] + ops}, first, st.lists(op, min_size=1, max_size=12),
                         st.sampled_from(['simple', 'unit']))
    return pool.flatmap(with_ops)


def run_any(case):
    if 'ops' in case:
        return run_history(case)
    return run_match(case) if 'query' in case else run_tok(case)


# ---- generators -----------------------------------------------------------------------------------------------------
def all_strings(alpha, maxlen):
    for n in range(0, maxlen + 1):
        for tup in itertools.product(alpha, repeat=n):
            yield ''.join(tup)


def tok_exhaustive(alpha, maxlen):
    def gen():
        for s in all_strings(alpha, maxlen):
            yield {'tok': 'simple', 's': s}
            yield {'tok': 'unit', 's': s}
    return gen


def match_exhaustive(qlen, plen):
    def gen():
        phrases = [p for p in all_strings(MSMALL, plen) if p.strip()]
        for tok in ('simple', 'unit'):
            for q in all_strings(MSMALL, qlen):
                for p in phrases:
                    yield {'tok': tok, 'form': 'list', 'entries': [[p, p]], 'query': q}
    return gen


def tok_cases():
    txt = st.text(st.sampled_from(ALPHA), max_size=40)
    wide = st.text(st.one_of(st.sampled_from(ALPHA), st.characters(max_codepoint=0xFFFF, exclude_categories=['Cs'])), max_size=12)
    return st.builds(lambda t, s: {'tok': t, 's': s}, st.sampled_from(['simple', 'unit']), st.one_of(txt, txt, wide))


def match_cases():
    phrase = st.text(st.sampled_from(ALPHA), min_size=1, max_size=6).filter(lambda p: p.strip() != '')
    ids = st.sampled_from(['id1', 'id2', 'id3', 'X', 'UTC+08:00'])
    entries = st.lists(st.tuples(ids, phrase).map(list), min_size=1, max_size=30)

    def with_query(es):
        ps = [e[1] for e in es]
        seg = st.one_of(st.sampled_from(ps), st.sampled_from(ps), st.text(st.sampled_from(ALPHA), max_size=3),
                        st.sampled_from([' ', ' ', '']))
        return st.builds(lambda segs, tok, form, ex: {'tok': tok, 'form': form, 'entries': es, 'query': ''.join(segs)[:40],
                                                      'explicit_tok': ex},
                         st.lists(seg, max_size=9), st.sampled_from(['simple', 'unit']), st.sampled_from(['list', 'ids', 'dict']),
                         st.booleans())
    return entries.flatmap(with_query)


def parts(tier, seed):
    if tier == 'quick':
        return [
            enum_part('tok-exhaustive-len5', tok_exhaustive(SMALL7, 5), run_tok, exhaustive=True),
            enum_part('match-exhaustive-q3p3', match_exhaustive(3, 3), run_match, exhaustive=True),
            hyp_part('tok-random', tok_cases, run_tok, 6000, min_shard=500),
            hyp_part('match-random', match_cases, run_match, 6000, min_shard=500),
            hyp_part('matcher-histories', history_cases, run_history, 3000, min_shard=250),
        ]
    return [
        enum_part('tok-exhaustive-len6', tok_exhaustive(SMALL8, 6), run_tok, exhaustive=True),
        enum_part('match-exhaustive-q4p3', match_exhaustive(4, 3), run_match, exhaustive=True),
        hyp_part('tok-random', tok_cases, run_tok, 200000, min_shard=500),
        hyp_part('match-random', match_cases, run_match, 200000, min_shard=500),
        hyp_part('matcher-histories', history_cases, run_history, 60000, min_shard=250),
        __import__('checks.fuzz_tier', fromlist=['x']).atheris_part('atheris-coverage-guided', 'c16', 120, run_any),
    ]
