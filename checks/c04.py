"""C04 - spelled-out cardinals and ordinals resolve to the integer they denote.

Oracle: the harness's own number-to-words functions (gens/numwords.py) are the inverse: the phrase written for n must come
back as exactly one number (resp. ordinal) entity spanning the whole phrase with value str(n).
"""
import re

from hypothesis import strategies as st

from gens import numwords as W
from lib.engine import R, V, enum_part, hyp_part, concurrent_part

ID = 'C04'
RULE = ('n drawn per culture below its bound (en 10^15; fr, zh 10^12; es, pt, it, de, nl 10^9; ja 10^6): exhaustive 0..9999 (en in the quick tier, '
        'all nine cultures in the thorough tier), Hypothesis integers biased to 10^k, 10^k+-1, all-nines, groups equal to 0/1/10-19; English '
        'spelling variants (with/without "and", hyphenated or blank-separated tens); cardinal model for all cultures, ordinal model for '
        'en (all n >= 1) and zh/ja (第N); alone or inside a carrier; non-trivial = n >= 100 with at least two non-zero 3-digit groups or a '
        'tens-unit compound; distinct = (culture, kind, phrase, carrier); concurrent part: the same generated cases evaluated 2-4 at a time on simultaneous threads (switch interval 10 us), '
        'cases that are clean alone must stay clean')
ASSUMPTIONS = ['gens/numwords.py (orthography functions typed into the harness) states the standard written form of each language',
               'carriers are static per-culture sentences that contain no number word']

BOUND = {'en-us': 15, 'fr-fr': 12, 'zh-cn': 12, 'ja-jp': 6, 'es-es': 9, 'pt-br': 9, 'it-it': 9, 'de-de': 9, 'nl-nl': 9}
CULTURES = sorted(BOUND)
CARRIERS = {
    'en-us': ['{}', 'the total was {} in the end'], 'es-es': ['{}', 'el total fue {} al final'], 'fr-fr': ['{}', 'le total est {} maintenant'],
    'pt-br': ['{}', 'o total foi {} no final'], 'de-de': ['{}', 'die Summe war {} am Ende'], 'it-it': ['{}', 'il totale era {} alla fine'],
    'nl-nl': ['{}', 'het totaal was {} aan het eind'], 'zh-cn': ['{}', '总数是 {} 了'], 'ja-jp': ['{}', '合計は {} です'],
}
_MODELS = {}


def models(culture):
    if culture not in _MODELS:
        from recognizers_number.number.number_recognizer import NumberRecognizer
        r = NumberRecognizer(culture)
        _MODELS[culture] = {'cardinal': r.get_number_model(culture, False), 'ordinal': r.get_ordinal_model(culture, False)}
    return _MODELS[culture]


def phrase(case):
    c, n, kind = case['culture'], case['n'], case['kind']
    if c == 'en-us':
        f = W.en_ord if kind == 'ordinal' else W.en
        return f(n, case.get('and', False), case.get('hyphen', True))
    w = W.GENS[c][0](n)
    if kind == 'ordinal':
        return '第' + w
    return w


def groups3(n):
    g = []
    while n:
        n, r = divmod(n, 1000)
        g.append(r)
    return g or [0]


def run_case(case):
    c, n, kind = case['culture'], case['n'], case['kind']
    text = phrase(case)
    q = case['carrier'].format(text)
    pos = q.index(text)
    res = models(c)[kind].parse(q)
    got = [{'text': r.text, 'start': r.start, 'end': r.end, 'type': r.type_name, 'value': (r.resolution or {}).get('value')} for r in res]
    vs = []
    bucket = '%s:%s' % (c, kind)
    want_type = 'number' if kind == 'cardinal' else 'ordinal'
    # the entity must cover the phrase; like C01 the slice may carry blanks at its two ends (several extractors include them)
    if not (len(got) == 1 and got[0]['start'] <= pos and got[0]['end'] >= pos + len(text) - 1 and
            q[got[0]['start']:got[0]['end'] + 1].strip() == text):
        vs.append(V('NOT_ONE_ENTITY_OVER_PHRASE', {'query': q, 'n': n, 'expected_span': [pos, pos + len(text) - 1], 'got': got},
                    bucket='SPAN:' + bucket))
    elif got[0]['value'] != str(n):
        vs.append(V('VALUE_WRONG', {'query': q, 'n': n, 'got': got[0]}, bucket='VALUE:' + bucket))
    elif got[0]['type'] != want_type:
        vs.append(V('TYPE_WRONG', {'query': q, 'n': n, 'got': got[0]}, bucket='TYPE:' + bucket))
    g = groups3(n)
    compound = any(20 < x % 100 and x % 10 for x in g)
    nt = n >= 100 and (sum(1 for x in g if x) >= 2 or compound)
    return R(vs, nontrivial=nt, labels=[c, kind, 'digits:%02d' % len(str(n)), 'alone' if case['carrier'] == '{}' else 'carrier'],
             obs={'query': q, 'entities': got}, key=[c, kind, q])


# ---- known-finding predicates ------------------------------------------------------------------------------------------
def pred_en_ordinal_teen_group(case, v):
    """English ordinal in which a group above the last one has a tens part of 10-19 (first alternative of OrdinalEnglishRegex has no teens)."""
    if case['culture'] != 'en-us' or case['kind'] != 'ordinal':
        return False
    g = groups3(case['n'])
    return any(10 <= x % 100 <= 19 for x in g[1:])


def pred_fr_plural_cents(case, v):
    if case['culture'] != 'fr-fr':
        return False
    return bool(re.search(r'\bcents\b', phrase(case)))


def _fr_groups(n):
    bi, rest = divmod(n, 10 ** 9)
    mi, rest = divmod(rest, 10 ** 6)
    th, r = divmod(rest, 1000)
    return bi, mi, th, r


def pred_fr_un_million_remainder(case, v):
    """French: 'un million' / 'un milliard' (coefficient exactly 1) followed by a remainder of 100 or more multiplies
    instead of adding ('un million six cent trente-deux mille ...' -> 100000632955)."""
    if case['culture'] != 'fr-fr':
        return False
    bi, mi, th, r = _fr_groups(case['n'])
    return (bi == 1 and case['n'] % 10 ** 9 >= 100) or (mi == 1 and case['n'] % 10 ** 6 >= 100)


def pred_fr_bare_cent_group(case, v):
    """French: a group that is exactly 'cent' (100) after a higher scale word and before 'mille'/'millions' is split off
    ('quatre-vingts millions cent mille' -> 80000100 + 1000)."""
    if case['culture'] != 'fr-fr':
        return False
    bi, mi, th, r = _fr_groups(case['n'])
    return (th == 100 and (mi or bi)) or (mi == 100 and bi)


def pred_fr_leading_cent_inside_sentence(case, v):
    """French: a numeral that starts with a bare 'cent' and does not stand at the start of the query loses its last word
    ('x cent quatre-vingt-six y' -> 180 and 6; the same phrase at position 0 is read correctly)."""
    return case['culture'] == 'fr-fr' and case['carrier'] != '{}' and phrase(case).startswith('cent ')


def pred_ja_not_chinese_compatible(case, v):
    """Japanese numerals are parsed with the Chinese conventions: the standard Japanese spelling is only understood when it
    coincides with the Chinese spelling of the same number (no bare 十/百/千, no skipped position, no short lower group)."""
    if case['culture'] != 'ja-jp':
        return False
    return W.ja(case['n']) != W.zh(case['n']).replace('万亿', '兆').replace('亿', '億')


def pred_ja_ordinal_leading_ten(case, v):
    """Japanese ordinal whose numeral starts with a bare 十 followed by more characters (第十一 -> 第十)."""
    if case['culture'] != 'ja-jp' or case['kind'] != 'ordinal':
        return False
    w = W.ja(case['n'])
    return w.startswith('十') and len(w) > 1


def pred_pt_milhao_e_mil(case, v):
    if case['culture'] != 'pt-br':
        return False
    return bool(re.search(r'milh(ão|ões) e mil\b', phrase(case)))


PREDICATES = {
    'c04_en_ordinal_teen_group': pred_en_ordinal_teen_group,
    'c04_fr_plural_cents': pred_fr_plural_cents,
    'c04_fr_un_million_remainder': pred_fr_un_million_remainder,
    'c04_fr_bare_cent_group': pred_fr_bare_cent_group,
    'c04_fr_leading_cent_inside_sentence': pred_fr_leading_cent_inside_sentence,
    'c04_ja_not_chinese_compatible': pred_ja_not_chinese_compatible,
    'c04_pt_milhao_e_mil': pred_pt_milhao_e_mil,
    'c04_ja_ordinal_leading_ten': pred_ja_ordinal_leading_ten,
}


# ---- generators --------------------------------------------------------------------------------------------------------
def ints(top):
    bound = 10 ** top
    special = sorted({x for k in range(0, top + 1) for x in (10 ** k - 1, 10 ** k, 10 ** k + 1) if 0 <= x < bound})
    grp = st.sampled_from([0, 1, 10, 11, 12, 13, 15, 19, 20, 21, 99, 100, 101, 110, 111, 119, 200, 999])

    def from_groups(gs):
        n = 0
        for g in gs:
            n = n * 1000 + g
        return n % bound
    return st.one_of(st.integers(0, bound - 1), st.sampled_from(special),
                     st.integers(1, top).flatmap(lambda nd: st.integers(10 ** (nd - 1), 10 ** nd - 1)),
                     st.lists(st.one_of(grp, st.integers(0, 999)), min_size=1, max_size=(top + 2) // 3).map(from_groups))


def cases(culture):
    top = BOUND[culture]
    kinds = ['cardinal', 'cardinal', 'ordinal'] if culture in ('en-us', 'zh-cn', 'ja-jp') else ['cardinal']

    def mk(n, kind, ci, a, h):
        if kind == 'ordinal' and n == 0:
            n = 1
        case = {'culture': culture, 'n': n, 'kind': kind, 'carrier': CARRIERS[culture][ci]}
        if culture == 'en-us':
            case['and'] = a
            case['hyphen'] = h
        return case
    return st.builds(mk, ints(top), st.sampled_from(kinds), st.sampled_from([0, 0, 1]), st.booleans(), st.booleans())


def small(cultures):
    def gen():
        for c in cultures:
            for n in range(10000):
                case = {'culture': c, 'n': n, 'kind': 'cardinal', 'carrier': '{}'}
                if c == 'en-us':
                    case['and'] = bool(n % 2)
                    case['hyphen'] = bool((n // 2) % 2)
                yield case
            if c == 'en-us':
                for n in range(1, 10000):
                    yield {'culture': c, 'n': n, 'kind': 'ordinal', 'carrier': '{}', 'and': bool(n % 2), 'hyphen': True}
    return gen


def parts(tier, seed):
    q = tier == 'quick'
    ps = [enum_part('exhaustive-0-9999', small(['en-us'] if q else CULTURES), run_case, exhaustive=True)]
    for c in CULTURES:
        ps.append(hyp_part('sampled-' + c, (lambda c=c: cases(c)), run_case, 2000 if q else 40000, min_shard=500))
    ps.append(concurrent_part('concurrent-mixed-cultures', lambda: st.one_of([cases(c) for c in ('en-us', 'es-es', 'de-de', 'zh-cn', 'pt-br')]), run_case,
                              300 if q else 6000, min_shard=50))
    return ps
