"""C11 - every resolved date-time value is well formed and agrees with its TIMEX (default options).

Shape oracle = gens/dt.py:shape_violations (stdlib date/time validation, TIMEX/value agreement, type-name agreement) plus:
a value in year 0001 is the library's own 'invalid' sentinel leaking out.
"""
import datetime as dt

from hypothesis import strategies as st

from checks import c06, c07, c08, c09, c10
from gens import dt as G
from lib import corpus
from lib.engine import R, V, enum_part, hyp_part

ID = 'C11'
RULE = ('every entity the date-time model (default options) returns on: all Python-supported Specs inputs of the eight date-time cultures under '
        'their spec reference dates (exhaustive in the thorough tier, 25% sample in quick) and under Hypothesis-drawn references 1950-2090; '
        'the generated expressions of C06-C10 (their own strategies re-run here); an invalid-date family (Feb 30, Apr 31, Feb 29 of non-leap '
        'years in every layout, alone, with a time, and as range endpoints); bare-hour ranges attached to a date; non-trivial = call that '
        'returned at least one entity with a resolved (not "not resolved") value; distinct = (culture, query, reference)')
ASSUMPTIONS = ['entities whose resolution is None (parser could not resolve) carry no values and are counted, not flagged',
               'generated inputs use years 1900-2099 and references 1950-2090, so a value in year 0001 is the min-value sentinel leaking']


def min_value_leaks(ent):
    out = []
    for v in ent.get('values') or []:
        for k in ('value', 'start', 'end'):
            x = v.get(k)
            if isinstance(x, str) and x.startswith('0001-01-01'):
                out.append(('MIN_VALUE_LEAK', v))
    return out


def check_entities(culture, q, ref, got, sig_prefix=None):
    vs = []
    resolved = False
    for e in got:
        for kind, detail in G.shape_violations(e) + min_value_leaks(e):
            vs.append(V(kind, {'culture': culture, 'query': q, 'ref': ref, 'entity_text': e['text'], 'type': e['type'], 'value': detail},
                        sig=(sig_prefix + [kind]) if sig_prefix else None, bucket='%s:%s' % (culture, kind)))
        for v in e.get('values') or []:
            if any(v.get(k) not in (None, G.NOT_RESOLVED) for k in ('value', 'start', 'end')):
                resolved = True
    return vs, resolved


def run_corpus(case):
    got = G.parse(case['culture'], case['input'], case['ref'])
    vs, resolved = check_entities(case['culture'], case['input'], case['ref'], got, [case['culture'], case['input']])
    if case.get('random_ref'):
        # under an arbitrary reference a sentence such as 'from 2019/aug/01 to today' may state a reversed or empty range:
        # the start-before-end clause is only demanded under the reference the sentence was written for
        vs = [v for v in vs if v.kind != 'DATERANGE_START_NOT_BEFORE_END']
    return R(vs, nontrivial=resolved, labels=['corpus', 'culture:' + case['culture'], 'entities:%d' % min(len(got), 3)],
             obs={'query': case['input'], 'ref': case['ref'], 'entities': got[:3]}, key=[case['culture'], case['input'], case['ref']])


SOURCES = {'c06': c06, 'c07': c07, 'c08': c08, 'c09': c09}


def pred_feb29_endpoint_other_year(case, v):
    """the C10 known finding seen through C11's shape oracle: a date(-time) range with a Feb-29 endpoint and the other endpoint in another year
    is forced into one year, which can put the end before the start"""
    return case.get('src') == 'c10' and 'a' in case.get('case', {}) and c10.pred_feb29_endpoint_other_year(case['case'], v)


def pred_empty_period_on_its_boundary(case, v):
    """'the rest of the week|month|year' asked on the last day of that period, 'year|month to date' asked on its first day, 'earlier this week'
    asked on a Monday: the period is empty and comes back with start == end == the reference date (the Specs pin the week form)"""
    import re
    if v.kind != 'DATERANGE_START_NOT_BEFORE_END' or case.get('family') != 'period':
        return False
    val = v.detail.get('value', {})
    return (val.get('start') == val.get('end') == str(case.get('ref', ''))[:10]
            and re.search(r'\brest of\b|\bto date\b|\bearlier this\b', case.get('q', '')) is not None)


PREDICATES = {'c11_feb29_endpoint_other_year': pred_feb29_endpoint_other_year,
              'c11_empty_period_on_its_boundary': pred_empty_period_on_its_boundary}


def run_generated(case):
    src = case['src']
    if src == 'c10':
        inner = case['case']
        if 'unit' in inner:
            q = c10.dur_build(inner)[0]
        else:
            q = c10.range_build(inner)[0]
        culture, ref = 'en-us', inner['ref']
    else:
        culture, q, ref = SOURCES[src].query_of(case['case'])
    got = G.parse(culture, q, ref)
    vs, resolved = check_entities(culture, q, ref, got)
    return R(vs, nontrivial=resolved, labels=['generated:' + src], obs={'query': q, 'ref': ref, 'entities': got[:3]}, key=[culture, q, ref])


# ---- invalid dates and bare-hour ranges -----------------------------------------------------------------------------------
INVALID = [(2, 30), (2, 31), (4, 31), (6, 31), (9, 31), (11, 31), (2, 29)]


def invalid_text(m, d, y, layout):
    mon = G.MONTHS['en'][m - 1]
    return {'iso': '%04d-%02d-%02d' % (y, m, d), 'm/d/yyyy': '%d/%d/%d' % (m, d, y), 'Month d, yyyy': '%s %d, %d' % (mon, d, y),
            'd Month yyyy': '%d %s %d' % (d, mon, y), 'Month d yyyy': '%s %d %d' % (mon, d, y), 'Month d': '%s %d' % (mon, d),
            'm/d': '%d/%d' % (m, d)}[layout]


def invalid_build(case):
    m, d, y = case['m'], case['d'], case['y']
    bad = invalid_text(m, d, y, case['layout'])
    good = invalid_text(case['gm'], case['gd'], y, case['layout'] if case['layout'] not in ('Month d', 'm/d') else 'Month d, yyyy')
    f = case['frame']
    t1, t2 = case.get('t1', '8pm'), case.get('t2', '2am')
    if f == 'alone':
        return bad
    if f == 'with-time':
        return '%s at %s' % (bad, t1)
    if f == 'with-time-blank':
        return '%s %s' % (bad, t1)
    if f == 'range-end':
        return 'from %s to %s' % (good, bad)
    if f == 'range-start':
        return 'from %s to %s' % (bad, good)
    if f == 'datetime-range-end':
        return 'from %s %s to %s %s' % (good, t1, bad, t2)
    if f == 'datetime-range-start':
        return 'from %s %s to %s %s' % (bad, t1, good, t2)
    if f == 'time-range-on':
        return '%s from %s to %s' % (bad, t1, t2)
    if f == 'part-of-day':
        return '%s in the morning' % bad
    raise ValueError(f)


FRAMES = ['alone', 'with-time', 'with-time-blank', 'range-end', 'range-start', 'datetime-range-end', 'datetime-range-start', 'time-range-on',
          'part-of-day']
LAYOUTS = ['iso', 'm/d/yyyy', 'Month d, yyyy', 'd Month yyyy', 'Month d yyyy', 'Month d', 'm/d']
TIMES = ['8pm', '2am', '3pm', '5pm', '17:20', '9:30am']


def run_invalid(case):
    q = case['carrier'].format(invalid_build(case))
    got = G.parse('en-us', q, case['ref'])
    vs, resolved = check_entities('en-us', q, case['ref'], got)
    return R(vs, nontrivial=bool(got), labels=['invalid-date', 'frame:' + case['frame']], obs={'query': q, 'ref': case['ref'], 'entities': got[:3]},
             key=['en-us', q, case['ref']])


def invalid_enum(quick):
    def gen():
        i = 0
        refs = ['2016-11-07T08:30:00', '2020-02-29T00:00:00', '2019-04-30T12:00:00']
        for (m, d) in INVALID:
            for y in ((2019,) if quick else (1900, 2019, 2021, 2100 - 1)):
                if (m, d) == (2, 29) and y % 4 == 0 and y != 1900:
                    continue
                for layout in LAYOUTS:
                    for frame in FRAMES:
                        i += 1
                        gd = min(d, 28)
                        yield {'m': m, 'd': d, 'y': y, 'gm': m, 'gd': gd - 1 if frame.endswith('end') else gd, 'layout': layout, 'frame': frame,
                               't1': TIMES[i % 6], 't2': TIMES[(i + 1) % 6], 'carrier': '{}' if i % 3 else 'I was there {} I think',
                               'ref': refs[i % 3]}
    return gen


def run_hour_range(case):
    q = case['q']
    got = G.parse('en-us', q, case['ref'])
    vs, resolved = check_entities('en-us', q, case['ref'], got)
    return R(vs, nontrivial=resolved, labels=['bare-hour-range'], obs={'query': q, 'ref': case['ref'], 'entities': got[:3]},
             key=['en-us', q, case['ref']])


def run_expression(case):
    got = G.parse(case['culture'], case['q'], case['ref'])
    vs, resolved = check_entities(case['culture'], case['q'], case['ref'], got, [case['culture'], case['q']])
    return R(vs, nontrivial=resolved, labels=['family:' + case['family']], obs={'query': case['q'], 'ref': case['ref'], 'entities': got[:3]},
             key=[case['culture'], case['q'], case['ref']])


def modifier_holiday_enum():
    """every modifier x target, every holiday x year phrase (en, zh), under three references"""
    from gens import exprs
    refs = ['2016-11-07T08:30:00', '2019-04-05T00:00:00', '2019-12-31T23:00:00']
    i = 0
    for m in exprs.MODIFIERS:
        for t in exprs.MOD_TARGETS:
            i += 1
            yield {'culture': 'en-us', 'q': ['{}', 'I have been busy {}', 'let us meet {} then'][i % 3].format(m + ' ' + t), 'ref': refs[i % 3], 'family': 'modifier'}
    for h in exprs.EN_HOLIDAYS:
        for y in exprs.EN_HOLIDAY_YEARS:
            i += 1
            yield {'culture': 'en-us', 'q': ['{}', 'I will be back on {}'][i % 2].format(h + y), 'ref': refs[i % 3], 'family': 'holiday'}
    for h in exprs.ZH_HOLIDAYS:
        for y in exprs.ZH_HOLIDAY_YEARS:
            i += 1
            yield {'culture': 'zh-cn', 'q': ['{}', '我{}回家'][i % 2].format(y + h), 'ref': refs[i % 3], 'family': 'holiday'}


PERIOD_HEADS = ['Q1', 'Q2', 'Q3', 'Q4', 'the first quarter', 'the second quarter', 'the third quarter', 'the fourth quarter', '1st quarter', '4th quarter',
                'H1', 'H2', 'the first half', 'the second half', 'spring', 'summer', 'fall', 'winter',
                'january', 'february', 'october', 'december', 'the first week of january', 'the last week of december', 'the second week of february',
                'the end of december', 'the beginning of january', 'the middle of february', 'early march', 'late december']
PERIOD_YEARS = ['', ' 2017', ' 2020', ' of 2019', ' this year', ' next year', ' last year']
PERIOD_FIXED = ['this week', 'next week', 'last week', 'this weekend', 'next weekend', 'last weekend', 'this month', 'next month', 'last month',
                'this year', 'next year', 'last year', 'this quarter', 'next quarter', 'last quarter', 'the rest of the week', 'the rest of the month',
                'the rest of the year', 'rest of this week', 'year to date', 'month to date', 'the 1990s', 'the 2020s', 'the 90s', "the '80s", 'the 21st century',
                'the week of september 4th', 'the week of 2/29/2020', 'next 3 weeks', 'past 2 months', 'the coming 5 days', 'previous 2 years',
                'next 2 quarters', 'the last 3 days', 'the next decade', 'the past decade', 'end of the year', 'beginning of next month',
                'the first week of next month', 'the last week of this year', 'end of last week', 'later this year', 'earlier this week',
                'the fourth quarter of last year', 'the fourth quarter of next year', 'the first quarter of this year', 'q4 of this year', '2017 q4', '2020q1']
PERIOD_REFS = ['2016-11-07T08:30:00', '2019-01-01T00:00:00', '2019-03-31T23:59:59', '2019-06-30T12:00:00', '2019-10-01T00:00:00', '2019-12-31T23:00:00',
               '2020-02-29T10:00:00', '2023-01-01T09:00:00', '2017-12-31T00:00:00', '2018-07-15T15:00:00', '2024-12-29T12:00:00', '2021-01-03T12:00:00']


def period_enum(quick):
    """date-range vocabulary (quarters, halves, seasons, months, weeks of a month, decades, relative periods) x year phrases x references on
    quarter / year / leap-day boundaries"""
    def gen():
        i = 0
        for h in PERIOD_HEADS:
            for y in PERIOD_YEARS:
                for k, ref in enumerate(PERIOD_REFS):
                    i += 1
                    if quick and (i + k) % 3:
                        continue
                    yield {'culture': 'en-us', 'q': ['{}', 'I will be away in {}', 'sales went up during {}.'][i % 3].format(h + y), 'ref': ref, 'family': 'period'}
        for e in PERIOD_FIXED:
            for ref in PERIOD_REFS:
                i += 1
                yield {'culture': 'en-us', 'q': ['{}', 'what happened {}?'][i % 2].format(e), 'ref': ref, 'family': 'period'}
    return gen


def hour_ranges():
    refs = ['2016-11-07T08:30:00', '2019-04-05T00:00:00']
    dates = ['on monday', 'tomorrow', 'on March 3, 2020', 'today', 'next friday']
    for h1 in range(0, 24):
        for h2 in range(0, 25):
            if h1 == h2:
                continue
            i = h1 * 25 + h2
            d = dates[i % 5]
            yield {'q': 'from %d to %d %s' % (h1, h2, d), 'ref': refs[i % 2]}
            if i % 3 == 0:
                yield {'q': 'between %d and %d %s' % (h1, h2, d), 'ref': refs[i % 2]}
            if i % 7 == 0:
                yield {'q': '%s from %d to %d' % (d, h1, h2), 'ref': refs[i % 2]}


# ---- generators -----------------------------------------------------------------------------------------------------------
def corpus_cases(frac, seed):
    def gen():
        for i, e in enumerate(corpus.entries(['DateTime'])):
            if e['culture'] not in G.DT_CULTURES:
                continue
            if frac >= 1 or (i * 2654435761 + seed * 131) % 100 < frac * 100:
                yield {'culture': e['culture'], 'input': e['input'], 'ref': e['ref']}
    return gen


def corpus_random_refs():
    es = [e for e in corpus.entries(['DateTime']) if e['culture'] in G.DT_CULTURES]
    return st.builds(lambda i, r: {'culture': es[i]['culture'], 'input': es[i]['input'], 'ref': r, 'random_ref': True}, st.integers(0, len(es) - 1), G.refs())


def generated_cases():
    subs = [c06.cases(c).map(lambda k: {'src': 'c06', 'case': k}) for c in G.DT_CULTURES]
    subs += [c07.composed_cases().map(lambda k: {'src': 'c07', 'case': k}), c07.seconds_cases().map(lambda k: {'src': 'c07', 'case': k}),
             c08.cases().map(lambda k: {'src': 'c08', 'case': k}), c08.cases().map(lambda k: {'src': 'c08', 'case': k}),
             c09.cases().map(lambda k: {'src': 'c09', 'case': k}), c09.cases().map(lambda k: {'src': 'c09', 'case': k}),
             c10.range_cases().map(lambda k: {'src': 'c10', 'case': k}), c10.range_cases().map(lambda k: {'src': 'c10', 'case': k})]
    return st.one_of(subs)


def parts(tier, seed):
    q = tier == 'quick'
    return [
        enum_part('corpus-spec-refs', corpus_cases(0.25 if q else 1, seed), run_corpus, exhaustive=not q),
        hyp_part('corpus-random-refs', corpus_random_refs, run_corpus, 1500 if q else 45000, min_shard=150),
        hyp_part('generated-c06-c10', generated_cases, run_generated, 3000 if q else 60000, min_shard=200),
        enum_part('invalid-dates', invalid_enum(q), run_invalid, exhaustive=True),
        enum_part('bare-hour-ranges', hour_ranges, run_hour_range, exhaustive=True),
        enum_part('modifiers-and-holidays', modifier_holiday_enum, run_expression, exhaustive=True),
        enum_part('period-vocabulary', period_enum(q), run_expression, exhaustive=True),
    ]
