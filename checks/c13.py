"""C13 - IP addresses, GUIDs and other sequence entities: sound and complete recognition.

Completeness: every generated well-formed literal standing as its own token is returned as exactly one entity with
the literal's span.  Soundness (IP): whatever is reported parses with the stdlib `ipaddress` module (after the
documented leading-zero removal) and the resolved value denotes the same address.  Oracles: `ipaddress`, the integers
the literal was written from, plain string equality for the other kinds.
"""
import ipaddress
import itertools

from hypothesis import strategies as st

from lib.engine import R, V, enum_part, hyp_part, concurrent_part

ID = 'C13'
RULE = ('IPv4: every combination of 13 boundary octets (exhaustive), every value 0..255 in every position, Hypothesis over 2^32 with '
        'optional leading zeros; IPv6: 128-bit values (random, sparse, single hextet, all-ones) in exploded / compressed / no-leading-zero '
        '/ upper-case spellings; GUID: 128 bits x {dashed, braced, upper-case, undashed}; near-miss invalid addresses (soundness only); '
        'grammar-generated e-mail / URL (TLD from BaseURL.TldList) / hashtag / mention / phone literals; each alone or in a carrier sentence, and pairs of two different literals of one kind in one query; '
        'separated by blanks; non-trivial = IP with a boundary octet, a compressed run or upper-case hex, any literal inside a carrier '
        '(start > 0), or a near-miss on which something was reported; distinct = distinct (kind, query); concurrent part: the same generated cases evaluated 2-4 at a time on simultaneous threads (switch interval 10 us), '
        'cases that are clean alone must stay clean')
ASSUMPTIONS = ['carrier sentences are static lists (chosen so that they contain no sequence entity and do not glue to the literal)',
               'phone formats are a static list of national spellings the wired regexes are documented to accept (>= 7 digits)']

BOUNDARY = [0, 1, 9, 10, 19, 99, 100, 101, 199, 200, 249, 250, 255]
BOUNDARY_Q = [0, 9, 10, 99, 100, 199, 200, 249, 250, 255]
CARRIERS = ['{}', '{}', 'my address is {}', 'connect to {} now', 'host {} , port 80', 'is {} reachable ?', '  {}  ', 'from {} to here']
TEXT_CARRIERS = ['{}', '{}', 'please contact {} today', 'see {} for details', 'it was {} , really', '  {} ']
CULTURE = 'en-us'


def model_fn(kind):
    import recognizers_sequence as rs
    return {'ip': rs.recognize_ip_address, 'guid': rs.recognize_guid, 'email': rs.recognize_email, 'url': rs.recognize_url,
            'hashtag': rs.recognize_hashtag, 'mention': rs.recognize_mention, 'phone': rs.recognize_phone_number}[kind]


def strip_zeros(text):
    """own leading-zero removal per group (IPv4 dots / IPv6 colons)"""
    out = []
    for grp in text.replace('.', ' . ').replace(':', ' : ').split(' '):
        if grp in ('.', ':') or grp == '':
            out.append(grp)
        else:
            out.append(grp.lstrip('0') or '0')
    return ''.join(out)


def ents(kind, query, culture=CULTURE):
    res = model_fn(kind)(query, culture)
    return [{'text': r.text, 'start': r.start, 'end': r.end, 'type': r.type_name, 'value': (r.resolution or {}).get('value')} for r in res]


def embed(lit, carrier):
    q = carrier.format(lit)
    return q, q.index(lit)


def run_literal(case):
    kind, lit = case['kind'], case['lit']
    q, pos = embed(lit, case['carrier'])
    got = ents(kind, q, case.get('culture', CULTURE))
    vs = []
    bucket = kind + ':' + case.get('form', '')
    ok = len(got) == 1 and got[0]['start'] == pos and got[0]['end'] == pos + len(lit) - 1 and got[0]['text'].lower() == lit.lower()
    if not ok:
        vs.append(V('NOT_RECOGNISED_EXACTLY', {'query': q, 'literal': lit, 'expected_span': [pos, pos + len(lit) - 1], 'got': got},
                    bucket='MISS:' + bucket))
    for g in got:
        if kind == 'ip':
            vs.extend(ip_sound(q, g, bucket))
        elif (g['value'] or '').lower() != (g['text'] or '').lower():
            vs.append(V('VALUE_NOT_TEXT', {'query': q, 'got': g}, bucket='VALUE:' + bucket))
    if kind == 'ip' and ok and 'int' in case:
        want = ipaddress.IPv6Address(case['int']) if case['form'].startswith('v6') else ipaddress.IPv4Address(case['int'])
        try:
            have = ipaddress.ip_address(got[0]['value'])
        except ValueError:
            have = None
        if have != want:
            vs.append(V('VALUE_OTHER_ADDRESS', {'query': q, 'expected': str(want), 'got': got[0]}, bucket='VALUE:' + bucket))
    nt = pos > 0 or bool(case.get('boundary'))
    return R(vs, nontrivial=nt, labels=[kind, 'form:' + case.get('form', '-'), 'carrier' if pos > 0 else 'alone'],
             obs={'query': q, 'entities': got}, key=[kind, q])


def ip_sound(q, g, bucket):
    vs = []
    try:
        a = ipaddress.ip_address(strip_zeros(g['text']))
    except ValueError:
        vs.append(V('REPORTED_INVALID_IP', {'query': q, 'got': g}, bucket='UNSOUND:' + bucket))
        return vs
    try:
        b = ipaddress.ip_address(g['value'])
    except (ValueError, TypeError):
        b = None
    if a != b:
        vs.append(V('VALUE_OTHER_ADDRESS', {'query': q, 'got': g, 'text_denotes': str(a)}, bucket='VALUE:' + bucket))
    if q[g['start']:g['end'] + 1].lower() != (g['text'] or '').lower():
        vs.append(V('SPAN_TEXT', {'query': q, 'got': g}, bucket='SPAN:' + bucket))
    return vs


def run_nearmiss(case):
    q = case['carrier'].format(case['lit'])
    got = ents('ip', q)
    vs = []
    for g in got:
        vs.extend(ip_sound(q, g, 'nearmiss:' + case['form']))
    return R(vs, nontrivial=bool(got), labels=['nearmiss:' + case['form'], 'reported' if got else 'rejected'],
             obs={'query': q, 'entities': got}, key=['nearmiss', q])


def run_pair(case):
    """two different literals of one kind in one query: exactly two entities, each with its own span, text and value"""
    kind = case['kind']
    a, b = case['lits']
    q = case['frame'].format(a, b)
    pa = q.index(a)
    pb = q.index(b, pa + len(a))
    got = ents(kind, q)
    vs = []
    want = [(pa, pa + len(a) - 1, a.lower()), (pb, pb + len(b) - 1, b.lower())]
    have = [(g['start'], g['end'], (g['text'] or '').lower()) for g in got]
    if have != want:
        vs.append(V('PAIR_NOT_RECOGNISED_EXACTLY', {'query': q, 'expected': want, 'got': got}, bucket='PAIR:' + kind))
    for g in got:
        if kind == 'ip':
            vs.extend(ip_sound(q, g, 'pair'))
        elif (g['value'] or '').lower() != (g['text'] or '').lower():
            vs.append(V('VALUE_NOT_TEXT', {'query': q, 'got': g}, bucket='VALUE:pair:' + kind))
    return R(vs, nontrivial=True, labels=[kind, 'pair'], obs={'query': q, 'entities': got}, key=[kind, q])


def pair_cases():
    frames = st.sampled_from(['{} {}', 'from {} to {}', '{} and then {} again', 'first {} , second {} .'])

    def two(strat):
        return st.tuples(strat, strat).filter(lambda t: t[0]['lit'].lower() != t[1]['lit'].lower() and t[0]['lit'].lower() not in t[1]['lit'].lower()
                                              and t[1]['lit'].lower() not in t[0]['lit'].lower())
    def mk(t, frame):
        return {'pair': True, 'kind': t[0]['kind'], 'lits': [t[0]['lit'], t[1]['lit']], 'frame': frame}
    return st.one_of(st.builds(mk, two(v4_cases()), frames), st.builds(mk, two(v6_cases()), frames), st.builds(mk, two(guid_cases()), frames),
                     st.builds(mk, two(email_cases()), frames), st.builds(mk, two(tag_cases().filter(lambda k: k['kind'] == 'hashtag')), frames))


def run_any(case):
    if case.get('pair'):
        return run_pair(case)
    return run_nearmiss(case) if case.get('nearmiss') else run_literal(case)


# ---- writers ---------------------------------------------------------------------------------------------------------
def v4_text(octs, pad):
    if pad == 0:
        return '.'.join(str(o) for o in octs)
    if pad == 1:
        return '.'.join('%03d' % o for o in octs)
    return '.'.join(('%02d' % o) if i % 2 == 0 else str(o) for i, o in enumerate(octs))


def v4_int(octs):
    return (octs[0] << 24) | (octs[1] << 16) | (octs[2] << 8) | octs[3]


def v4_case(octs, pad=0, carrier='{}'):
    return {'kind': 'ip', 'form': 'v4pad%d' % pad, 'lit': v4_text(octs, pad), 'int': v4_int(octs), 'carrier': carrier,
            'boundary': any(o in BOUNDARY for o in octs)}


def v6_hextets(n):
    return [(n >> (16 * (7 - i))) & 0xFFFF for i in range(8)]


def v6_text(n, style):
    h = v6_hextets(n)
    if style == 'exploded':
        return ':'.join('%04x' % x for x in h)
    if style == 'nolead':
        return ':'.join('%x' % x for x in h)
    if style == 'upper':
        return ':'.join('%04X' % x for x in h)
    # compressed: replace the longest run (length >= 2, first on ties) of zero hextets by '::'
    best, bl, i = -1, 0, 0
    while i < 8:
        if h[i] == 0:
            j = i
            while j < 8 and h[j] == 0:
                j += 1
            if j - i > bl:
                best, bl = i, j - i
            i = j
        else:
            i += 1
    if bl < 2:
        return ':'.join('%x' % x for x in h)
    left = ':'.join('%x' % x for x in h[:best])
    right = ':'.join('%x' % x for x in h[best + bl:])
    s = left + '::' + right
    return s.upper() if style == 'compressed-upper' else s


def guid_text(n, style):
    hx = '%032x' % n
    dashed = '-'.join([hx[0:8], hx[8:12], hx[12:16], hx[16:20], hx[20:32]])
    if style == 'dashed':
        return dashed
    if style == 'braced':
        return '{' + dashed + '}'
    if style == 'upper':
        return dashed.upper()
    if style == 'undashed':
        return hx
    return '{' + dashed.upper() + '}'


# ---- enumerations ----------------------------------------------------------------------------------------------------
def v4_boundary(octets):
    def gen():
        for k, tup in enumerate(itertools.product(octets, repeat=4)):
            yield v4_case(list(tup), pad=0, carrier=CARRIERS[k % len(CARRIERS)])
    return gen


def v4_positions():
    out = []
    for pos in range(4):
        for v in range(256):
            o = [192, 168, 7, 21]
            o[pos] = v
            out.append(v4_case(o, pad=0, carrier=CARRIERS[(pos + v) % len(CARRIERS)]))
            if v < 100:
                out.append(v4_case(o, pad=1, carrier='{}'))
    return out


# ---- strategies ------------------------------------------------------------------------------------------------------
def v4_cases():
    octet = st.one_of(st.integers(0, 255), st.sampled_from(BOUNDARY))
    return st.builds(lambda o, p, c: v4_case(o, p, c), st.lists(octet, min_size=4, max_size=4), st.sampled_from([0, 0, 1, 2]),
                     st.sampled_from(CARRIERS))


def v6_ints():
    sparse = st.lists(st.tuples(st.integers(0, 7), st.integers(0, 0xFFFF)), min_size=0, max_size=3).map(
        lambda ps: sum(v << (16 * (7 - i)) for i, v in dict(ps).items()))
    return st.one_of(st.integers(0, 2 ** 128 - 1), sparse, sparse, st.sampled_from([0, 1, 2 ** 128 - 1, 1 << 112, 0xFE80 << 112 | 1]),
                     st.integers(0, 0xFFFF).map(lambda v: v << 64))


def v6_cases():
    def mk(n, style, carrier):
        lit = v6_text(n, style)
        return {'kind': 'ip', 'form': 'v6' + style, 'lit': lit, 'int': n, 'carrier': carrier,
                'boundary': '::' in lit or lit != lit.lower()}
    return st.builds(mk, v6_ints(), st.sampled_from(['exploded', 'nolead', 'upper', 'compressed', 'compressed', 'compressed-upper']),
                     st.sampled_from(CARRIERS))


def guid_cases():
    return st.builds(lambda n, s, c: {'kind': 'guid', 'form': s, 'lit': guid_text(n, s), 'carrier': c, 'boundary': s != 'dashed'},
                     st.one_of(st.integers(0, 2 ** 128 - 1), st.sampled_from([0, 2 ** 128 - 1, 1])),
                     st.sampled_from(['dashed', 'braced', 'upper', 'undashed', 'braced-upper']), st.sampled_from(TEXT_CARRIERS))


def nearmiss_cases():
    octet = st.integers(0, 255).map(str)
    bad_octet = st.integers(256, 999).map(str)

    def with_bad(os_, pos, bad):
        os_ = list(os_)
        os_[pos] = bad
        return '.'.join(os_)
    hext = st.integers(0, 0xFFFF).map(lambda v: '%x' % v)
    forms = st.one_of(
        st.builds(lambda o, p, b: ('octet256-999', with_bad(o, p, b)), st.lists(octet, min_size=4, max_size=4), st.integers(0, 3), bad_octet),
        st.lists(octet, min_size=3, max_size=3).map(lambda o: ('3groups', '.'.join(o))),
        st.lists(octet, min_size=5, max_size=5).map(lambda o: ('5groups', '.'.join(o))),
        st.lists(hext, min_size=9, max_size=9).map(lambda h: ('9hextets', ':'.join(h))),
        st.builds(lambda a, b, c: ('two-ellipsis', '%s::%s::%s' % (a, b, c)), hext, hext, hext),
        st.builds(lambda h, p, b: ('5digit-hextet', ':'.join(h[:p] + [b] + h[p + 1:])), st.lists(hext, min_size=8, max_size=8),
                  st.integers(0, 7), st.integers(0x10000, 0xFFFFF).map(lambda v: '%x' % v)),
        st.lists(hext, min_size=7, max_size=7).map(lambda h: ('7hextets', ':'.join(h))))
    return st.builds(lambda f, c: {'nearmiss': True, 'form': f[0], 'lit': f[1], 'carrier': c}, forms, st.sampled_from(CARRIERS))


LOWER = 'abcdefghijklmnopqrstuvwxyz'
ALNUM = LOWER + '0123456789'


def label():
    return st.builds(lambda a, mid, z: a + mid + z, st.sampled_from(LOWER), st.text(ALNUM + '-', max_size=8).filter(lambda s: '--' not in s),
                     st.sampled_from(ALNUM))


def email_cases():
    local = st.builds(lambda a, mid, z: a + mid + z, st.sampled_from(ALNUM), st.text(ALNUM + '_+.-', max_size=10), st.sampled_from(ALNUM))
    tld = st.text(LOWER, min_size=2, max_size=6)
    dom = st.lists(label(), min_size=1, max_size=3).map('.'.join)
    return st.builds(lambda l, d, t, c: {'kind': 'email', 'form': 'email', 'lit': '%s@%s.%s' % (l, d, t), 'carrier': c},
                     local, dom, tld, st.sampled_from(TEXT_CARRIERS))


def url_cases():
    from recognizers_sequence.resources.base_url import BaseURL
    tlds = [t for t in BaseURL.TldList if t.isalpha() and t.isascii() and 2 <= len(t) <= 18]
    scheme = st.sampled_from(['', '', 'http://', 'https://', 'ftp://'])
    host = st.lists(label(), min_size=1, max_size=3).map('.'.join)
    port = st.one_of(st.just(''), st.just(''), st.integers(1, 65535).map(lambda p: ':%d' % p))
    seg = st.text(ALNUM + '-_', min_size=1, max_size=8)
    path = st.one_of(st.just(''), st.lists(seg, min_size=1, max_size=3).map(lambda s: '/' + '/'.join(s)),
                     st.builds(lambda s, k, v: '/' + s + '?' + k + '=' + v, seg, seg, seg))
    return st.builds(lambda sc, h, t, po, pa, c: {'kind': 'url', 'form': 'url' + ('+scheme' if sc else ''), 'lit': sc + h + '.' + t + po + pa, 'carrier': c},
                     scheme, host, st.sampled_from(tlds), port, path, st.sampled_from(TEXT_CARRIERS))


def tag_cases():
    word = st.text(ALNUM + 'ABCXYZ_', min_size=1, max_size=12)
    return st.builds(lambda k, w, c: {'kind': k, 'form': k, 'lit': ('#' if k == 'hashtag' else '@') + w, 'carrier': c},
                     st.sampled_from(['hashtag', 'mention']), word, st.sampled_from(TEXT_CARRIERS))


PHONE_FORMATS = [
    ('us-paren', '(2dd) 5dd-dddd'), ('us-dash', '2dd-5dd-dddd'), ('us-dot', '2dd.5dd.dddd'), ('us-plus1', '+1 2dd 5dd dddd'),
    ('us-1dash', '1-2dd-5dd-dddd'), ('us-plain', '2dd5dddddd'), ('us-ext', '2dd-5dd-dddd x ddd'),
    ('uk-plus44', '+44 2d 7ddd dddd'), ('uk-0', '02d 7ddd dddd'), ('cn-plus86', '+86 10 8ddd dddd'), ('cn-mobile', '13d dddd dddd'),
    ('br-plus55', '+55 11 9dddd-dddd'), ('de-plus49', '+49 30 dddddddd'), ('dk-plus45', '+45 dd dd dd dd'),
    ('it-plus39', '+39 06 dddd dddd'), ('nl-plus31', '+31 20 ddd dddd'), ('general', 'dddd dddd'), ('special', 'ddd-ddd-dddd'),
]


def phone_cases():
    def mk(fmt, digits, c):
        it = iter(digits)
        lit = ''.join(str(next(it)) if ch == 'd' else ch for ch in fmt[1])
        return {'kind': 'phone', 'form': fmt[0], 'lit': lit, 'carrier': c}
    return st.builds(mk, st.sampled_from(PHONE_FORMATS), st.lists(st.integers(0, 9), min_size=16, max_size=16),
                     st.sampled_from(['{}', '{}', 'call me at {} please', 'my number is {}', 'phone : {} .']))


def parts(tier, seed):
    q = tier == 'quick'
    return [
        enum_part('ipv4-boundary', v4_boundary(BOUNDARY_Q if q else BOUNDARY), run_literal, exhaustive=True),
        enum_part('ipv4-each-position', v4_positions, run_literal, exhaustive=True),
        hyp_part('ipv4-random', v4_cases, run_literal, 3000 if q else 1000000, min_shard=200),
        hyp_part('ipv6', v6_cases, run_literal, 3000 if q else 100000, min_shard=200),
        hyp_part('guid', guid_cases, run_literal, 2000 if q else 50000, min_shard=200),
        hyp_part('nearmiss', nearmiss_cases, run_nearmiss, 2000 if q else 50000, min_shard=200),
        hyp_part('email', email_cases, run_literal, 800 if q else 50000, min_shard=100),
        hyp_part('url', url_cases, run_literal, 800 if q else 50000, min_shard=100),
        hyp_part('hashtag-mention', tag_cases, run_literal, 800 if q else 50000, min_shard=100),
        hyp_part('phone', phone_cases, run_literal, 800 if q else 50000, min_shard=100),
        hyp_part('pairs-in-one-query', pair_cases, run_pair, 1500 if q else 40000, min_shard=150),
        concurrent_part('concurrent-mixed-kinds', lambda: st.one_of(v4_cases(), v6_cases(), guid_cases(), email_cases(), url_cases(), tag_cases(),
                                                                    phone_cases()), run_literal, 400 if q else 8000, min_shard=50),
    ]
