"""C10 - durations and explicit ranges are arithmetically self-consistent."""
import datetime as dt
import re
from decimal import Decimal

from hypothesis import strategies as st

from gens import dt as G
from lib import corpus
from lib.engine import R, V, enum_part, hyp_part

ID = 'C10'
RULE = ('durations: N in 1..5000 (every N for the seven units in the thorough tier) x unit second..year, singular/plural, carriers; explicit '
        'ranges "from A to B" / "between A and B" over ordered pairs of absolute dates (4 layouts), unambiguous clock times (incl. noon/midnight and pairs crossing midnight) and date-times, under reference datetimes 1950-2090; '
        'corpus clause: every value with a (start,end,duration) TIMEX that the date-time model produces on the Python-supported Specs inputs '
        'of all eight cultures; non-trivial = duration with N >= 60, or a range crossing a month/year boundary, or a corpus call that produced '
        'a (start,end,duration) triple; distinct = (culture, query, reference)')
ASSUMPTIONS = ['own ISO-8601 duration reader (Y/M via calendar shift, W/D/H/M/S exact); clock-time ranges are compared modulo 24 h']
TD = dt.timedelta

UNITS = [('second', 'seconds', 'PT%dS', 1), ('minute', 'minutes', 'PT%dM', 60), ('hour', 'hours', 'PT%dH', 3600), ('day', 'days', 'P%dD', 86400),
         ('week', 'weeks', 'P%dW', 604800), ('month', 'months', 'P%dM', 2592000), ('year', 'years', 'P%dY', 31536000)]
DUR_CARRIERS = ['{}', '{}', 'it lasted {} in total', 'we waited {} for nothing', '{}.', 'we waited {}, then left.']
RANGE_CARRIERS = ['{}', '{}', 'I will be away {}', 'the shop is closed {} this time', '{}.', 'I will be away {}, call 4 of us.']
DUR_RE = re.compile(r'^P(?:(\d+(?:\.\d+)?)Y)?(?:(\d+(?:\.\d+)?)M)?(?:(\d+(?:\.\d+)?)W)?(?:(\d+(?:\.\d+)?)D)?'
                    r'(?:T(?:(\d+(?:\.\d+)?)H)?(?:(\d+(?:\.\d+)?)M)?(?:(\d+(?:\.\d+)?)S)?)?$')
TRIPLE_RE = re.compile(r'^\(([^,()]+),([^,()]+),([^,()]*)\)$')
TX_DATE = re.compile(r'^\d{4}-\d{2}-\d{2}$')
TX_DT = re.compile(r'^(\d{4}-\d{2}-\d{2})T(\d{2})(?::(\d{2})(?::(\d{2}))?)?$')
TX_T = re.compile(r'^T(\d{2})(?::(\d{2})(?::(\d{2}))?)?$')


# ---- triple arithmetic ----------------------------------------------------------------------------------------------------
def shift_months(d, months):
    i = d.year * 12 + d.month - 1 + months
    y, m = i // 12, i % 12 + 1
    import calendar
    day = min(d.day, calendar.monthrange(y, m)[1])
    return d.replace(year=y, month=m, day=day)


def triple_violations(v):
    """[(kind, detail)] for one resolution value whose timex is (start,end,duration) with definite endpoints."""
    tx = v.get('timex')
    m = TRIPLE_RE.match(tx) if isinstance(tx, str) else None
    if not m or v.get('start') is None or v.get('end') is None:
        return None
    a, b, d = m.groups()
    dm = DUR_RE.match(d)
    out = []
    try:
        if TX_DATE.match(a) and TX_DATE.match(b):
            if (a, b) != (v['start'], v['end']):
                out.append(('TRIPLE_ENDPOINTS', v))
            s, e = dt.datetime.fromisoformat(a), dt.datetime.fromisoformat(b)
        elif TX_DT.match(a) and TX_DT.match(b):
            def conv(x):
                mm = TX_DT.match(x)
                return dt.datetime.fromisoformat(mm.group(1)) + TD(hours=int(mm.group(2)), minutes=int(mm.group(3) or 0), seconds=int(mm.group(4) or 0))
            s, e = conv(a), conv(b)
            if (s.strftime('%Y-%m-%d %H:%M:%S'), e.strftime('%Y-%m-%d %H:%M:%S')) != (v['start'], v['end']):
                out.append(('TRIPLE_ENDPOINTS', v))
        elif TX_T.match(a) and TX_T.match(b):
            def convt(x):
                mm = TX_T.match(x)
                return '%s:%s:%s' % (mm.group(1), mm.group(2) or '00', mm.group(3) or '00')
            if (convt(a), convt(b)) != (v['start'], v['end']):
                out.append(('TRIPLE_ENDPOINTS', v))
            if not dm or d in ('P', 'PT'):
                out.append(('TRIPLE_DURATION_FORMAT', v))
                return out
            if dm.group(1) or dm.group(2) or dm.group(3) or dm.group(4):
                out.append(('TRIPLE_DURATION', v))
                return out
            secs = Decimal(dm.group(5) or 0) * 3600 + Decimal(dm.group(6) or 0) * 60 + Decimal(dm.group(7) or 0)
            sa = [int(x) for x in convt(a).split(':')]
            sb = [int(x) for x in convt(b).split(':')]
            diff = (sb[0] * 3600 + sb[1] * 60 + sb[2]) - (sa[0] * 3600 + sa[1] * 60 + sa[2])
            if Decimal(diff % 86400) != secs % 86400:
                out.append(('TRIPLE_DURATION', v))
            return out
        else:
            return None     # endpoints not definite: outside the statement
        if not dm or d in ('P', 'PT'):
            out.append(('TRIPLE_DURATION_FORMAT', v))
            return out
        months = int(Decimal(dm.group(1) or 0) * 12 + Decimal(dm.group(2) or 0))
        if (dm.group(1) and '.' in dm.group(1)) or (dm.group(2) and '.' in dm.group(2)):
            return out      # fractional calendar units have no exact arithmetic
        secs = (Decimal(dm.group(3) or 0) * 604800 + Decimal(dm.group(4) or 0) * 86400 + Decimal(dm.group(5) or 0) * 3600 +
                Decimal(dm.group(6) or 0) * 60 + Decimal(dm.group(7) or 0))
        expect_end = shift_months(s, months) + TD(seconds=float(secs))
        if expect_end != e:
            out.append(('TRIPLE_DURATION', v))
    except (ValueError, OverflowError) as exc:
        out.append(('TRIPLE_UNREADABLE', {'value': v, 'error': repr(exc)}))
    return out


# ---- durations ------------------------------------------------------------------------------------------------------------
def dur_build(case):
    sing, plur, fmt, secs = UNITS[case['unit']]
    n = case['n']
    expr = '%d %s' % (n, sing if n == 1 else plur)
    q = case['carrier'].format(expr)
    return q, q.index(expr), expr, fmt % n, str(n * secs)


def run_duration(case):
    q, pos, expr, tx, val = dur_build(case)
    got = G.parse('en-us', q, case['ref'])
    want = [{'timex': tx, 'type': 'duration', 'value': val}]
    vs = []
    ok = len(got) == 1 and G.covers(got[0], q, pos, expr) and got[0]['type'] == 'datetimeV2.duration' and got[0]['values'] == want
    if not ok:
        vs.append(V('DURATION_WRONG', {'query': q, 'expected': want, 'got': got}, bucket='duration:' + UNITS[case['unit']][0]))
    return R(vs, nontrivial=case['n'] >= 60, labels=['duration', 'unit:' + UNITS[case['unit']][0]], obs={'query': q, 'entities': got},
             key=['en-us', q])


# ---- explicit ranges ------------------------------------------------------------------------------------------------------
DATE_LAYOUTS = ['iso', 'Month d, yyyy', 'm/d/yyyy', 'd Month yyyy']


def time_text(t):
    """t = [h24, m, style] -> unambiguous clock time text"""
    h, m, style = t[0], t[1], t[2]
    sec = t[3] if len(t) > 3 else None
    if sec is not None:
        # seconds written out (date-time range endpoints only)
        if style == '24':
            return '%02d:%02d:%02d' % (h, m, sec)
        return '%d:%02d:%02d%s%s' % (h % 12 or 12, m, sec, ' ' if style == 'ampm-blank' else '', 'am' if h < 12 else 'pm')
    if style == 'word':
        return {(12, 0): 'noon', (0, 0): 'midnight'}[(h, m)]
    if style == '24':
        return '%02d:%02d' % (h, m)
    suffix = 'am' if h < 12 else 'pm'
    h12 = h % 12 or 12
    sp = ' ' if style == 'ampm-blank' else ''
    if m == 0 and style != 'ampm-minutes':
        return '%d%s%s' % (h12, sp, suffix)
    return '%d:%02d%s%s' % (h12, m, sp, suffix)


YEARLESS_FIRST = {'Month d, yyyy': lambda d: '%s %d' % (G.MONTHS['en'][d.month - 1], d.day),
                  'd Month yyyy': lambda d: '%d %s' % (d.day, G.MONTHS['en'][d.month - 1]),
                  'the dth of Month yyyy': lambda d: 'the %d%s of %s' % (d.day, G.ordinal_suffix(d.day), G.MONTHS['en'][d.month - 1])}
EXTRA_LAYOUTS = {'the dth of Month yyyy': lambda d: 'the %d%s of %s %d' % (d.day, G.ordinal_suffix(d.day), G.MONTHS['en'][d.month - 1], d.year)}


def endpoint_text(ep):
    kind = ep['kind']
    if kind == 'date':
        d = dt.date.fromisoformat(ep['date'])
        if ep.get('omit_year'):
            return YEARLESS_FIRST[ep['layout']](d)
        if ep['layout'] in EXTRA_LAYOUTS:
            return EXTRA_LAYOUTS[ep['layout']](d)
        return G.EN_LAYOUTS[ep['layout']](d)
    if kind == 'time':
        return time_text(ep['time'])
    return G.EN_LAYOUTS[ep['layout']](dt.date.fromisoformat(ep['date'])) + ' ' + time_text(ep['time'])


def range_build(case):
    a, b = endpoint_text(case['a']), endpoint_text(case['b'])
    expr = ('from %s to %s' if case['frame'] == 'from-to' else 'between %s and %s') % (a, b)
    q = case['carrier'].format(expr)
    return q, q.index(expr), expr


def pred_feb29_endpoint_other_year(case, v):
    """known finding: a date range with an endpoint on 29 February and the other endpoint in another year: the Feb-29 year
    synchronisation (meant for year-less dates) also runs when both years are written, and forces both endpoints into one year"""
    if 'a' not in case or case['a']['kind'] == 'time':
        return False
    da, db = dt.date.fromisoformat(case['a']['date']), dt.date.fromisoformat(case['b']['date'])
    return da.year != db.year and ((da.month, da.day) == (2, 29) or (db.month, db.day) == (2, 29))


def pred_midnight_hour_with_ampm_partner(case, v):
    """known finding: a time point in hour 0 written in 24-hour style combined with an am/pm time point
    ('from 00:00 to 1pm' -> start 12:00, 'from 1:02am to 00:01' -> end 12:01): the unmarked hour is shifted by 12 by the
    'from 4 to 5pm' heuristic although 00:xx can only be a 24-hour time"""
    if 'a' not in case or case['a']['kind'] == 'date':
        return False
    ta, tb = case['a']['time'], case['b']['time']
    return (ta[2] == '24' and ta[0] == 0 and tb[2] != '24') or (tb[2] == '24' and tb[0] == 0 and ta[2] != '24')


def run_range(case):
    q, pos, expr = range_build(case)
    got = G.parse('en-us', q, case['ref'])
    vs = []
    kind = case['a']['kind']
    typ = {'date': 'daterange', 'time': 'timerange', 'datetime': 'datetimerange'}[kind]

    def ep_value(ep):
        if ep['kind'] == 'date':
            return ep['date']
        t = '%02d:%02d:%02d' % (ep['time'][0], ep['time'][1], (ep['time'][3] if len(ep['time']) > 3 and ep['time'][3] is not None else 0))
        return t if ep['kind'] == 'time' else ep['date'] + ' ' + t
    ws, we = ep_value(case['a']), ep_value(case['b'])
    ok = (len(got) == 1 and G.covers(got[0], q, pos, expr) and got[0]['type'] == 'datetimeV2.' + typ and got[0]['values'] is not None and
          len(got[0]['values']) == 1 and got[0]['values'][0].get('start') == ws and got[0]['values'][0].get('end') == we and
          got[0]['values'][0].get('type') == typ)
    bucket = 'range:%s:%s' % (kind, case['frame'])
    if not ok:
        vs.append(V('RANGE_ENDPOINTS_WRONG', {'query': q, 'expected': {'type': typ, 'start': ws, 'end': we}, 'got': got}, bucket=bucket))
    else:
        tv = triple_violations(got[0]['values'][0])
        if tv is None:
            vs.append(V('RANGE_WITHOUT_TRIPLE', {'query': q, 'got': got}, bucket=bucket + ':triple'))
        else:
            for k, d in tv:
                vs.append(V(k, {'query': q, 'value': d}, bucket=bucket + ':' + k))
    nt = False
    if kind != 'time':
        da, db = dt.date.fromisoformat(case['a']['date']), dt.date.fromisoformat(case['b']['date'])
        nt = (da.year, da.month) != (db.year, db.month)
    else:
        nt = case['a']['time'][1] != 0 or case['b']['time'][1] != 0 or case['a']['time'][:2] > case['b']['time'][:2]
    overnight = kind == 'time' and case['a']['time'][:2] > case['b']['time'][:2]
    return R(vs, nontrivial=nt, labels=['range:' + kind, case['frame']] + (['overnight'] if overnight else []), obs={'query': q, 'entities': got}, key=['en-us', q, case['ref']])


# ---- corpus clause --------------------------------------------------------------------------------------------------------
def run_corpus(case):
    got = G.parse(case['culture'], case['input'], case['ref'])
    vs = []
    ntriples = 0
    for e in got:
        for v in e['values'] or []:
            tv = triple_violations(v)
            if tv is None:
                continue
            ntriples += 1
            for k, d in tv:
                vs.append(V(k, {'culture': case['culture'], 'query': case['input'], 'ref': case['ref'], 'value': v},
                            sig=[case['culture'], case['input'], k], bucket='corpus:%s:%s' % (case['culture'], k)))
    return R(vs, nontrivial=ntriples > 0, labels=['corpus', 'culture:' + case['culture'], 'triples:%d' % min(ntriples, 2)],
             obs={'query': case['input'], 'entities': got[:3]}, key=[case['culture'], case['input'], case['ref']])


def run_any(case):
    if 'unit' in case:
        return run_duration(case)
    if 'frame' in case:
        return run_range(case)
    return run_corpus(case)


PREDICATES = {'c10_feb29_endpoint_other_year': pred_feb29_endpoint_other_year,
              'c10_midnight_hour_with_ampm_partner': pred_midnight_hour_with_ampm_partner}


# ---- generators -----------------------------------------------------------------------------------------------------------
REF0 = '2016-11-07T08:30:00'


def all_durations(step):
    def gen():
        for u in range(7):
            for n in range(1, 5001):
                if n <= 120 or n % step == 0 or n in (365, 366, 999, 1000, 1001, 4999, 5000):
                    yield {'unit': u, 'n': n, 'carrier': DUR_CARRIERS[(n + u) % 6], 'ref': REF0}
    return gen


def range_cases():
    def date_pair(d1, gap, l1, l2):
        d2 = d1 + TD(days=gap)
        if d2.year > 2099:
            d1, d2 = d1 - TD(days=gap), d1
        return ({'kind': 'date', 'date': d1.isoformat(), 'layout': l1}, {'kind': 'date', 'date': d2.isoformat(), 'layout': l2})
    gaps = st.one_of(st.integers(1, 40), st.integers(1, 800), st.sampled_from([1, 28, 29, 30, 31, 365, 366]))
    lay = st.sampled_from(DATE_LAYOUTS)

    def shared_year(d1, gap, l):
        # the year is written once, on the second endpoint ('from January 4 to February 22, 2017')
        d2 = d1 + TD(days=gap)
        if d2.year != d1.year:
            d1 = d1.replace(month=1, day=min(d1.day, 28))
            d2 = d1 + TD(days=gap % 300 + 1)
        return ({'kind': 'date', 'date': d1.isoformat(), 'layout': l, 'omit_year': True}, {'kind': 'date', 'date': d2.isoformat(), 'layout': l})
    dates = st.one_of(st.builds(date_pair, G.dates(), gaps, lay, lay), st.builds(date_pair, G.dates(), gaps, lay, lay),
                      st.builds(shared_year, G.dates(), st.integers(1, 300), st.sampled_from(sorted(YEARLESS_FIRST))))
    style = st.sampled_from(['24', 'ampm', 'ampm-blank', 'ampm-minutes'])

    def time_pair(t1, t2, s1, s2, overnight):
        a, b = sorted([t1, t2])
        if a == b:
            b = (a + 61) % 1440
            a, b = sorted([a, b])
        if overnight:
            a, b = b, a         # 'from 11pm to 2am': an ordered pair that crosses midnight
        # a 24-hour spelling is unambiguous only for hour 0 or >= 13
        def fix(t, s):
            h = t // 60
            if t in (0, 720) and s in ('ampm-minutes',):
                s = 'word'      # 'midnight' / 'noon'
            if s == '24' and 1 <= h <= 12:
                s = 'ampm'
            return [h, t % 60, s]
        return ({'kind': 'time', 'time': fix(a, s1)}, {'kind': 'time', 'time': fix(b, s2)})
    minute = st.one_of(st.integers(0, 1439), st.sampled_from([0, 60, 600, 610, 660, 671, 720, 780, 1380, 1439]))
    times = st.builds(time_pair, minute, minute, style, style, st.sampled_from([False, False, True]))
    times_day = st.builds(time_pair, minute, minute, style, style, st.just(False))

    def dt_pair(dp, tp, sa=None, sb=None):
        (a, b), (ta, tb) = dp, tp
        a = {k: v for k, v in a.items() if k != 'omit_year'}
        if a['layout'] in EXTRA_LAYOUTS:
            a = dict(a, layout='Month d, yyyy')
        if b['layout'] in EXTRA_LAYOUTS:
            b = dict(b, layout='Month d, yyyy')

        def noword(t):
            return [t[0], t[1], 'ampm' if t[2] == 'word' else t[2]]     # '<date> midnight' is not a date-time expression
        ta2, tb2 = noword(ta['time']), noword(tb['time'])
        if sa is not None:
            ta2 = ta2 + [sa]
        if sb is not None:
            tb2 = tb2 + [sb]
        return (dict(a, kind='datetime', time=ta2), dict(b, kind='datetime', time=tb2))
    secs = st.sampled_from([None, None, None, 0, 20, 59])
    dts = st.builds(dt_pair, dates, times_day, secs, secs)
    return st.builds(lambda p, f, ci, r: {'a': p[0], 'b': p[1], 'frame': f, 'carrier': RANGE_CARRIERS[ci], 'ref': r},
                     st.one_of(dates, times, times, dts), st.sampled_from(['from-to', 'between-and']), st.integers(0, 5), G.refs())


def word_ranges(step):
    """Deterministic part: clock-time ranges with noon/midnight endpoints, several crossing midnight, under the boundary references
    (month ends, year ends, leap days) - the end of an overnight range is built from the reference date."""
    pairs = [([23, 0, 'ampm'], [0, 0, 'word']), ([12, 0, 'word'], [0, 0, 'word']), ([22, 0, 'ampm'], [12, 0, 'word']), ([0, 0, 'word'], [2, 0, 'ampm']),
             ([12, 0, 'word'], [15, 0, 'ampm']), ([21, 30, 'ampm'], [0, 0, 'word']), ([23, 0, 'ampm'], [2, 0, 'ampm']), ([23, 30, '24'], [1, 15, 'ampm'])]

    def gen():
        for i, r in enumerate(G.boundary_refs()):
            if i % step:
                continue
            for j, (a, b) in enumerate(pairs):
                yield {'a': {'kind': 'time', 'time': a}, 'b': {'kind': 'time', 'time': b}, 'frame': 'from-to' if (i + j) % 2 else 'between-and',
                       'carrier': RANGE_CARRIERS[(i + j) % 6], 'ref': r.isoformat()}
    return gen


def corpus_cases(frac, seed):
    def gen():
        es = corpus.entries(['DateTime'])
        for i, e in enumerate(es):
            if e['culture'] not in G.DT_CULTURES:
                continue
            if frac >= 1 or (i * 2654435761 + seed * 97) % 100 < frac * 100:
                yield {'culture': e['culture'], 'input': e['input'], 'ref': e['ref']}
    return gen


def parts(tier, seed):
    q = tier == 'quick'
    return [
        enum_part('durations', all_durations(37 if q else 1), run_duration, exhaustive=not q),
        hyp_part('ranges', range_cases, run_range, 2000 if q else 30000, min_shard=200),
        enum_part('word-ranges-x-boundary-refs', word_ranges(3 if q else 1), run_range, exhaustive=True),
        enum_part('corpus-triples', corpus_cases(0.25 if q else 1, seed), run_corpus, exhaustive=not q),
    ]
