"""C17 - culture routing and model caching never serve the wrong model.

Reference routing function written from the statement; which model was served is observed by BEHAVIOUR FINGERPRINT: a few
multilingual queries are answered by a model built directly from the registered constructor of the expected (type, culture,
options); the routed model must give exactly that fingerprint.  Histories are driven by a Hypothesis rule-based machine.
"""
import datetime as dt
import importlib
import json

from hypothesis import strategies as st
from hypothesis.stateful import RuleBasedStateMachine, invariant, rule

from lib import engine
from lib.engine import R, V, enum_part, machine_part

ID = 'C17'
RULE = ('culture strings (supported codes in random letter case, ll-RR variants of every supported language, language-only codes, unknown '
        'languages with and without region, empty string, None) x the 16 model getters of the five recognisers x options (0 for number/unit/'
        'sequence/choice; 0..4 and out-of-range values for date-time) x fallback flag x target culture of the recogniser; the finite table is '
        'enumerated, and a rule-based machine issues the requests in arbitrary order through fresh recognisers, long-lived recognisers and the '
        'recognize_* helpers with cache clears in between; culture-convention probes typed into the harness (1200 in words, a grouped decimal, a '
        'percentage, tomorrow, a currency amount per culture) must be read by the model served for that culture code in three letter cases; non-trivial = history with >= 3 distinct cache keys of one model type or an '
        'exception path (table part: request whose culture string is not literally a supported code); distinct = distinct request / history')
ASSUMPTIONS = ['the list of supported culture codes is typed into the harness from the documentation (13 codes)',
               'which (type, culture) pairs a recogniser registers is read from its registration table; the expected model is built directly '
               'from that registered constructor, bypassing routing and cache']

SUPPORTED = ['en-us', 'en-*', 'nl-nl', 'zh-cn', 'fr-fr', 'it-it', 'ja-jp', 'ko-kr', 'pt-br', 'es-es', 'es-mx', 'tr-tr', 'de-de']
GETTERS = [
    ('number', 'recognizers_number.number.number_recognizer', 'NumberRecognizer', 'NumberModel', 'recognizers_number', 'recognize_number'),
    ('ordinal', 'recognizers_number.number.number_recognizer', 'NumberRecognizer', 'OrdinalModel', 'recognizers_number', 'recognize_ordinal'),
    ('percentage', 'recognizers_number.number.number_recognizer', 'NumberRecognizer', 'PercentModel', 'recognizers_number', 'recognize_percentage'),
    ('age', 'recognizers_number_with_unit.number_with_unit.number_with_unit_recognizer', 'NumberWithUnitRecognizer', 'AgeModel', 'recognizers_number_with_unit', 'recognize_age'),
    ('currency', 'recognizers_number_with_unit.number_with_unit.number_with_unit_recognizer', 'NumberWithUnitRecognizer', 'CurrencyModel', 'recognizers_number_with_unit', 'recognize_currency'),
    ('dimension', 'recognizers_number_with_unit.number_with_unit.number_with_unit_recognizer', 'NumberWithUnitRecognizer', 'DimensionModel', 'recognizers_number_with_unit', 'recognize_dimension'),
    ('temperature', 'recognizers_number_with_unit.number_with_unit.number_with_unit_recognizer', 'NumberWithUnitRecognizer', 'TemperatureModel', 'recognizers_number_with_unit', 'recognize_temperature'),
    ('datetime', 'recognizers_date_time.date_time.date_time_recognizer', 'DateTimeRecognizer', 'DateTimeModel', 'recognizers_date_time', 'recognize_datetime'),
    ('phone_number', 'recognizers_sequence.sequence.sequence_recognizer', 'SequenceRecognizer', 'PhoneNumberModel', 'recognizers_sequence', 'recognize_phone_number'),
    ('ip_address', 'recognizers_sequence.sequence.sequence_recognizer', 'SequenceRecognizer', 'IpAddressModel', 'recognizers_sequence', 'recognize_ip_address'),
    ('mention', 'recognizers_sequence.sequence.sequence_recognizer', 'SequenceRecognizer', 'MentionModel', 'recognizers_sequence', 'recognize_mention'),
    ('hashtag', 'recognizers_sequence.sequence.sequence_recognizer', 'SequenceRecognizer', 'HashtagModel', 'recognizers_sequence', 'recognize_hashtag'),
    ('email', 'recognizers_sequence.sequence.sequence_recognizer', 'SequenceRecognizer', 'EmailModel', 'recognizers_sequence', 'recognize_email'),
    ('url', 'recognizers_sequence.sequence.sequence_recognizer', 'SequenceRecognizer', 'URLModel', 'recognizers_sequence', 'recognize_url'),
    ('guid', 'recognizers_sequence.sequence.sequence_recognizer', 'SequenceRecognizer', 'GUIDModel', 'recognizers_sequence', 'recognize_guid'),
    ('boolean', 'recognizers_choice.choice.recognizers_choice', 'ChoiceRecognizer', 'BooleanModel', 'recognizers_choice', 'recognize_boolean'),
]
G = {g[0]: g for g in GETTERS}
FQ = ['one thousand two hundred and 3.5', 'mil doscientos', 'mille deux cents', 'mil e duzentos', 'eintausendzweihundert', 'milleduecento',
      'twaalfhonderd', '一千二百', '1.234,5 and 1,234.5 %', 'tomorrow at 3pm', 'mañana', 'demain', 'amanhã', 'morgen um 3', 'domani', '明天下午三点',
      'from 4pm to 5pm tomorrow', 'the week', '5 euros et 3 dollars', '五美元', '37 degrees and 10 years old', '3 km', 'call 555 010 0100 or +86 10 8888 8888',
      '电话13812345678吧', 'yes third 30%', 'second']
REF = dt.datetime(2016, 11, 7, 12, 0, 0)
CULTURE_STRINGS = (SUPPORTED + ['EN-US', 'En-Us', 'ZH-CN', 'Fr-FR', 'ES-MX', 'pT-bR', 'DE-de', 'en-gb', 'en-au', 'en', 'EN', 'es-ar', 'es', 'fr-ca', 'fr', 'FR-BE',
                               'pt-pt', 'pt', 'de-at', 'de', 'it-ch', 'it', 'nl-be', 'nl', 'zh-tw', 'zh', 'ja', 'ja-xx', 'ko', 'tr', 'tr-cy', 'sv-se', 'sv',
                               'xx-yy', 'xx', 'qq-qq', 'klingon', 'en_us', 'fr fr', '', None])
_REG = {}
_FP = {}
_LONG = {}


def route(code):
    """reference routing (from the statement); returns the culture the request resolves to (possibly unsupported)"""
    if not code:
        return None
    c = code.lower()
    if c in SUPPORTED:
        return c
    prefix = c.split('-')[0].strip()
    cands = [s for s in SUPPORTED if s.startswith(prefix)]
    if len(cands) == 1:
        return cands[0]
    if len(cands) > 1:
        star = [s for s in cands if '*' in s]
        if star:
            return star[-1]
    return c


def options_obj(getter, o):
    if getter == 'datetime':
        from recognizers_date_time.date_time.utilities import DateTimeOptions
        return DateTimeOptions(o) if 0 <= o <= 4 else o
    return o


def options_valid(getter, o):
    return (0 <= o <= 4) if getter == 'datetime' else o == 0


def rec_class(getter):
    g = G[getter]
    return getattr(importlib.import_module(g[1]), g[2])


def registered(getter):
    """{culture: ctor} for the model type of this getter"""
    if getter not in _REG:
        rec = rec_class(getter)('en-us', lazy_initialization=False) if getter != 'datetime' else rec_class(getter)('en-us', lazy_initialization=False)
        out = {}
        for k, ctor in rec.model_factory.model_factories.items():
            if k.model_type == G[getter][3]:
                out[k.culture] = ctor
        _REG[getter] = out
    return _REG[getter]


FQ_BY = {'number': list(range(0, 9)) + [24, 25], 'ordinal': list(range(0, 9)) + [24, 25], 'percentage': list(range(0, 9)) + [24],
         'datetime': list(range(9, 18)), 'age': [18, 19, 20, 21], 'currency': [18, 19, 20, 21], 'dimension': [18, 19, 20, 21],
         'temperature': [18, 19, 20, 21]}
_FPOBJ = {}


def fingerprint(model, getter):
    # the fingerprint of one model OBJECT is computed once (the object is kept alive, so its id is not reused)
    if id(model) in _FPOBJ and _FPOBJ[id(model)][0] is model:
        return _FPOBJ[id(model)][1]
    fp = _fingerprint(model, getter)
    _FPOBJ[id(model)] = (model, fp)
    return fp


def _fingerprint(model, getter):
    out = []
    for q in [FQ[i] for i in FQ_BY.get(getter, [22, 23, 24])]:
        rs = model.parse(q, REF) if getter == 'datetime' else model.parse(q)
        out.append([[r.text, r.start, r.end, r.type_name, json.dumps(r.resolution, sort_keys=True, ensure_ascii=False, default=str)] for r in rs])
    return json.dumps(out, ensure_ascii=False)


def expected_fingerprint(getter, culture, o):
    key = (getter, culture, o)
    if key not in _FP:
        model = registered(getter)[culture](options_obj(getter, o))
        _FP[key] = fingerprint(model, getter)
    return _FP[key]


def expected_outcome(req):
    """('error', 'ValueError') or ('model', culture)"""
    getter, o = req['getter'], req['options']
    if not options_valid(getter, o):
        return ('error', 'ValueError')
    code = req['culture'] if req['culture'] is not None else req.get('target')
    mapped = route(code)
    reg = registered(getter)
    if mapped in reg:
        return ('model', mapped)
    if req['fallback'] and 'en-us' in reg:
        return ('model', 'en-us')
    return ('error', 'ValueError')


def perform(req, longlived=False):
    """returns ('error', name) or ('model', fingerprint, model object)"""
    getter, o = req['getter'], req['options']
    try:
        if longlived:
            key = (getter, req.get('target'), o)
            if key not in _LONG:
                _LONG[key] = rec_class(getter)(req.get('target'), options_obj(getter, o), False)
            rec = _LONG[key]
        else:
            rec = rec_class(getter)(req.get('target'), options_obj(getter, o), False)
        model = getattr(rec, 'get_%s_model' % getter)(req['culture'], req['fallback'])
    except ValueError:
        return ('error', 'ValueError', None)
    return ('model', fingerprint(model, getter), model)


def ja_sequence_shortcut(case, v=None):
    """known finding: SequenceRecognizer.get_phone_number/ip_address/url send every culture starting with 'ja-' (and 'zh-') to the Chinese
    model before routing"""
    req = case if 'getter' in case else (v.detail or {}).get('request', {})
    code = req.get('culture') if req.get('culture') is not None else req.get('target')
    return req.get('getter') in ('phone_number', 'ip_address', 'url') and isinstance(code, str) and code.lower().startswith('ja-')


PREDICATES = {'c17_ja_sequence_shortcut': lambda case, v: ja_sequence_shortcut((v.detail or {}).get('request', {}))}


def judge(req, outcome):
    exp = expected_outcome(req)
    if exp[0] == 'error':
        if outcome[0] != 'error':
            return V('NO_ERROR_WHERE_EXPECTED', {'request': req, 'expected': 'ValueError', 'got': 'a model'},
                     bucket='NOERR:%s' % req['getter'])
        return None
    if outcome[0] == 'error':
        return V('ERROR_INSTEAD_OF_MODEL', {'request': req, 'expected_culture': exp[1], 'got': outcome[1]}, bucket='ERR:%s' % req['getter'])
    want = expected_fingerprint(req['getter'], exp[1], req['options'])
    if outcome[1] != want:
        served = [c for c in registered(req['getter']) if expected_fingerprint(req['getter'], c, req['options']) == outcome[1]]
        return V('WRONG_MODEL_SERVED', {'request': req, 'expected_culture': exp[1], 'behaves_like': served or 'no registered culture with these options'},
                 bucket='WRONG:%s' % req['getter'])
    return None


def run_request(case):
    out = perform(case)
    v = judge(case, out)
    code = case['culture']
    nt = not (isinstance(code, str) and code in SUPPORTED)
    return R([v] if v else [], nontrivial=nt, labels=['getter:' + case['getter'], 'outcome:' + out[0], 'fallback:%s' % case['fallback']],
             obs={'request': case, 'expected': list(expected_outcome(case)), 'outcome': out[0]}, key=case)


def table(quick):
    def gen():
        i = 0
        for getter in G:
            opts = [0] if getter != 'datetime' else ([0, 1, 2, 3, 4, 8, -1] if not quick else [0, 2, 4, 8])
            for code in CULTURE_STRINGS:
                for fb in (True, False):
                    for o in opts:
                        i += 1
                        targets = [None] if code is not None else [None, 'fr-fr', 'zh-cn', 'xx-yy']
                        if code is not None and i % 5 == 0:
                            targets = ['de-de']
                        for t in targets:
                            yield {'getter': getter, 'culture': code, 'fallback': fb, 'options': o, 'target': t}
    return gen


def warm(tier):
    for getter in G:
        for c in registered(getter):
            for o in ([0] if getter != 'datetime' else [0, 1, 2, 3, 4]):
                if getter != 'datetime' or c in ('en-us', 'zh-cn', 'es-es', 'fr-fr') or o == 0:
                    expected_fingerprint(getter, c, o)


def make_machine():
    reqs = st.builds(lambda g, c, fb, o, t: {'getter': g, 'culture': c, 'fallback': fb, 'options': o if g == 'datetime' else 0, 'target': t},
                     st.sampled_from(sorted(G)), st.sampled_from(CULTURE_STRINGS), st.booleans(), st.sampled_from([0, 0, 1, 2, 4, 3, 8]),
                     st.sampled_from([None, None, 'en-us', 'fr-fr', 'zh-cn', 'es-mx', 'xx-yy']))
    same_type = st.builds(lambda g, cs, fb, os_: [{'getter': g, 'culture': c, 'fallback': fb, 'options': (o if g == 'datetime' else 0), 'target': None}
                                                  for c, o in zip(cs, os_ * 6)],
                          st.sampled_from(sorted(G)), st.lists(st.sampled_from(CULTURE_STRINGS), min_size=3, max_size=6), st.booleans(),
                          st.lists(st.sampled_from([0, 1, 2, 4]), min_size=1, max_size=3))

    class RoutingMachine(RuleBasedStateMachine):
        def __init__(self):
            super().__init__()
            self.trace = []
            self.pending = None
            self.objects = {}       # expected cache key -> id(model)
            self.keys = {}
            self.errors = 0

        def _do(self, req, longlived):
            ctx = engine.current()
            if ctx is not None:
                ctx.heartbeat()
            self.trace.append(['request', req, longlived])
            out = perform(req, longlived)
            v = judge(req, out)
            exp = expected_outcome(req)
            if exp[0] == 'error':
                self.errors += 1
            if v is None and out[0] == 'model' and not ja_sequence_shortcut(req):
                key = (req['getter'], exp[1], req['options'])
                self.keys.setdefault(req['getter'], set()).add(key)
                mid = id(out[2])
                if key in self.objects and self.objects[key][0] != mid:
                    v = V('SAME_KEY_DIFFERENT_OBJECT', {'request': req, 'key': list(key)}, bucket='IDENTITY:same-key')
                for k2, (m2, _obj) in self.objects.items():
                    if k2 != key and m2 == mid:
                        v = V('DIFFERENT_KEYS_SAME_OBJECT', {'request': req, 'key': list(key), 'other_key': list(k2)}, bucket='IDENTITY:shared')
                self.objects[key] = (mid, out[2])       # keep the object alive so that ids stay unique
            if v is not None and self.pending is None:
                self.pending = v

        @rule(req=reqs, longlived=st.booleans())
        def request(self, req, longlived):
            self._do(req, longlived)

        @rule(req=reqs, first=st.booleans(), longlived=st.booleans())
        def both_fallback_flags(self, req, first, longlived):
            """the same request with fallback enabled and disabled, in either order, through one recogniser instance"""
            self._do(dict(req, fallback=first), longlived)
            self._do(dict(req, fallback=not first), longlived)

        @rule(rs=same_type, cold=st.booleans())
        def concurrent_same_type(self, rs, cold):
            """requests for several cultures of one model type issued at the same time by harness threads through ONE recogniser
            (cold: the cache is cleared first, so that the models are being constructed while the other requests arrive)"""
            import threading
            if cold:
                self.clear_cache()
            self.trace.append(['concurrent', rs, cold])
            getter = rs[0]['getter']
            o = rs[0]['options']
            key = (getter, None, o)
            try:
                if key not in _LONG:
                    _LONG[key] = rec_class(getter)(None, options_obj(getter, o), False)
            except ValueError:
                return
            barrier = threading.Barrier(len(rs))
            outs = [None] * len(rs)

            def work(k):
                barrier.wait(timeout=30)
                outs[k] = perform(dict(rs[k], options=o), True)
            ths = [threading.Thread(target=work, args=(k,)) for k in range(len(rs))]
            for t in ths:
                t.start()
            for t in ths:
                t.join()
            for k, r in enumerate(rs):
                v = judge(dict(r, options=o), outs[k])
                if v is not None and self.pending is None:
                    self.pending = v
            # the same requests again, sequentially, through the same recogniser: whatever the race left behind shows here
            for r in rs:
                v = judge(dict(r, options=o), perform(dict(r, options=o), True))
                if v is not None and self.pending is None:
                    self.pending = v

        @rule(rs=same_type)
        def burst_same_type(self, rs):
            for r in rs:
                self._do(r, False)

        @rule(req=reqs)
        def helper(self, req):
            """the recognize_* helper: the answer to one query must be the answer of the expected model"""
            ctx = engine.current()
            if ctx is not None:
                ctx.heartbeat()
            if req['culture'] is None:
                return
            g = G[req['getter']]
            f = getattr(importlib.import_module(g[4]), g[5])
            self.trace.append(['helper', req])
            q = FQ[0] if req['getter'] in ('number', 'ordinal', 'percentage') else FQ[9] if req['getter'] == 'datetime' else FQ[18]
            try:
                if req['getter'] == 'datetime':
                    res = f(q, req['culture'], options_obj('datetime', req['options']), REF, req['fallback'])
                else:
                    res = f(q, req['culture'], 0, req['fallback'])
                got = ('answer', json.dumps([[r.text, r.start, r.end, r.type_name, json.dumps(r.resolution, sort_keys=True, ensure_ascii=False,
                                                                                          default=str)] for r in res], ensure_ascii=False))
            except ValueError:
                got = ('error', 'ValueError')
            exp = expected_outcome(dict(req, target=req['culture']))
            v = None
            if exp[0] == 'error':
                if got[0] != 'error':
                    v = V('NO_ERROR_WHERE_EXPECTED', {'request': req, 'via': 'helper'}, bucket='NOERR:%s' % req['getter'])
            elif got[0] == 'error':
                v = V('ERROR_INSTEAD_OF_MODEL', {'request': req, 'via': 'helper', 'expected_culture': exp[1]}, bucket='ERR:%s' % req['getter'])
            else:
                model = registered(req['getter'])[exp[1]](options_obj(req['getter'], req['options']))
                rs = model.parse(q, REF) if req['getter'] == 'datetime' else model.parse(q)
                want = json.dumps([[r.text, r.start, r.end, r.type_name, json.dumps(r.resolution, sort_keys=True, ensure_ascii=False, default=str)]
                                   for r in rs], ensure_ascii=False)
                if want != got[1]:
                    v = V('WRONG_MODEL_SERVED', {'request': req, 'via': 'helper', 'expected_culture': exp[1]}, bucket='WRONG:%s' % req['getter'])
            if v is not None and self.pending is None:
                self.pending = v

        @rule()
        def clear_cache(self):
            from recognizers_text.model import ModelFactory
            ModelFactory._ModelFactory__cache.clear()
            _LONG.clear()
            _FPOBJ.clear()      # the models of the old cache are unreachable now; keeping them alive would only grow the process
            self.objects = {}
            self.trace.append(['clear_cache'])

        @invariant()
        def routed_as_the_reference_says(self):
            if self.pending is not None:
                v = self.pending
                ctx = engine.current()
                findings = ctx.findings
                if findings.match({'trace': self.trace}, v):
                    ctx.stats.known[findings.match({'trace': self.trace}, v)] = ctx.stats.known.get(findings.match({'trace': self.trace}, v), 0) + 1
                    self.pending = None
                    return
                if v.bucket in ctx.excluded_buckets:
                    self.pending = None
                    return
                ctx.last_fail = ({'trace': self.trace}, v, {'trace_length': len(self.trace)})
                raise AssertionError(v.kind)

        def teardown(self):
            ctx = engine.current()
            if ctx is None or not self.trace:
                return
            nt = any(len(k) >= 3 for k in self.keys.values()) or self.errors > 0
            r = R([], nontrivial=nt, labels=['history', 'error-paths' if self.errors else 'no-error-path'], obs={'trace': self.trace[:6]},
                  key=self.trace, evals=len(self.trace))
            ctx.stats.record(ctx.part, {'trace': self.trace[:12]}, r)

    return RoutingMachine


def replay_trace(case):
    from recognizers_text.model import ModelFactory
    ModelFactory._ModelFactory__cache.clear()
    _LONG.clear()
    _FPOBJ.clear()
    if 'trace' not in case:
        return run_request(case)
    vs = []
    for s in case['trace']:
        if s[0] == 'request':
            v = judge(s[1], perform(s[1], s[2]))
            if v is not None:
                vs.append(v)
        elif s[0] == 'clear_cache':
            ModelFactory._ModelFactory__cache.clear()
            _LONG.clear()
            _FPOBJ.clear()
        elif s[0] == 'concurrent':
            import threading
            rs = s[1]
            outs = [None] * len(rs)
            barrier = threading.Barrier(len(rs))

            def work(k):
                barrier.wait(timeout=30)
                outs[k] = perform(rs[k], True)
            ths = [threading.Thread(target=work, args=(k,)) for k in range(len(rs))]
            for t in ths:
                t.start()
            for t in ths:
                t.join()
            for k, r in enumerate(rs):
                for out in (outs[k], perform(r, True)):
                    v = judge(r, out)
                    if v is not None:
                        vs.append(v)
    return R(vs, nontrivial=True)


# ---- the served model speaks the requested culture (expectations typed into the harness, independent of the registration table) -------------
WORDS_1200 = {'en-us': 'one thousand two hundred', 'es-es': 'mil doscientos', 'es-mx': 'mil doscientos', 'fr-fr': 'mille deux cent trois',
              'pt-br': 'mil e duzentos', 'de-de': 'eintausendzweihundert', 'it-it': 'milleduecento', 'nl-nl': 'twaalfhonderd', 'zh-cn': '一千二百',
              'ja-jp': '千二百'}
DECIMAL_COMMA = {'es-es', 'fr-fr', 'pt-br', 'de-de', 'it-it', 'nl-nl'}
TOMORROW = {'en-us': 'tomorrow', 'es-es': 'mañana', 'fr-fr': 'demain', 'pt-br': 'amanhã', 'de-de': 'morgen', 'it-it': 'domani', 'nl-nl': 'morgen',
            'zh-cn': '明天'}
UNIT_PROBE = {'en-us': ('$ 2.5', '2.5'), 'es-mx': ('$ 2.5', '2.5'), 'es-es': ('2,5 euros', '2,5'), 'fr-fr': ('2,5 euros', '2,5'),
              'pt-br': ('2,5 euros', '2,5'), 'de-de': ('2,5 euro', '2,5'), 'it-it': ('2,5 euro', '2,5'), 'nl-nl': ('2,5 euro', '2,5')}


def convention_probes():
    """(getter, culture code as requested, probe query, expected resolution value)"""
    out = []
    for c, w in WORDS_1200.items():
        if c != 'ja-jp':
            out.append(('number', c, w, '1203' if c == 'fr-fr' else '1200'))     # (French plural 'cents' is a known C04 finding)
        lit, val = ('1.234,5', '1234,5') if c in DECIMAL_COMMA else ('1,234.5', '1234.5')
        if c in ('zh-cn', 'ja-jp'):
            lit = '1234.5'                                                        # (grouped CJK percentages are a known C03 finding)
        out.append(('number', c, lit, val))
        out.append(('percentage', c, lit + '%', val + '%'))
        lit2, val2 = ('12,5', '12,5') if c in DECIMAL_COMMA else ('12.5', '12.5')
        out.append(('percentage', c, lit2 + '%', val2 + '%'))
    for c, w in TOMORROW.items():
        out.append(('datetime', c, w, '2016-11-08'))
    for c, (qq, val) in UNIT_PROBE.items():
        out.append(('currency', c, qq, val))
    return out


def convention_cases():
    for getter, c, q, val in convention_probes():
        for code in (c, c.upper(), c[:2] + c[2:].upper()):
            for longlived in (False, True):
                yield {'getter': getter, 'culture': code, 'probe': q, 'expected_value': val, 'longlived': longlived}


def run_convention(case):
    getter = case['getter']
    req = {'getter': getter, 'culture': case['culture'], 'fallback': False, 'options': 0, 'target': None}
    out = perform(req, case['longlived'])
    vs = []
    got = None
    if out[0] != 'model':
        vs.append(V('ERROR_INSTEAD_OF_MODEL', {'request': req, 'got': out[1]}, bucket='CONV_ERR:%s' % getter))
    else:
        rs = out[2].parse(case['probe'], REF) if getter == 'datetime' else out[2].parse(case['probe'])
        got = [[r.text, json.dumps(r.resolution, sort_keys=True, ensure_ascii=False, default=str)] for r in rs]
        vals = []
        for r in rs:
            res = r.resolution or {}
            if getter == 'datetime':
                vals += [v.get('value') for v in res.get('values', [])]
            else:
                vals.append(res.get('value'))
        if len(rs) != 1 or vals[:1] != [case['expected_value']]:
            vs.append(V('MODEL_DOES_NOT_SPEAK_THE_CULTURE', {'request': req, 'probe': case['probe'], 'expected_value': case['expected_value'], 'got': got},
                        bucket='CONV:%s:%s' % (getter, case['culture'].lower())))
    return R(vs, nontrivial=True, labels=['convention:' + getter], obs={'probe': case['probe'], 'got': got}, key=case)


def parts(tier, seed):
    q = tier == 'quick'
    return [
        enum_part('routing-table', table(q), run_request, exhaustive=True),
        enum_part('culture-conventions', convention_cases, run_convention, exhaustive=True),
        machine_part('histories', make_machine, 80 if q else 400, steps=30 if q else 40, min_shard=5, replay=replay_trace, hang_s=120 if q else 300),
    ]
