"""C08 - relative date expressions are calendar arithmetic on the reference date (English)."""
import datetime as dt

from hypothesis import strategies as st

from gens import dt as G
from lib.engine import R, V, enum_part, hyp_part

ID = 'C08'
RULE = ('reference datetimes 1950-2090 (Hypothesis datetimes mixed 50% with an explicit boundary pool: 28th-31st of months, leap days, Dec 28-Jan 4 '
        'of several years, every weekday) x the expression families of the statement (today/tomorrow/yesterday, N days|weeks ago, in N days|weeks, '
        'N days from now, next/last/this <weekday>, this/next/last week|month|year, now) x N in 1..5000 biased to 1, 7, 28-31, 365, 366, 1000; '
        'the boundary pool x all families is also enumerated; non-trivial = the answer lies in another month, year or ISO week-year than the '
        'reference; distinct = (query, reference)')
ASSUMPTIONS = ['stdlib datetime/timedelta/isocalendar is the oracle']
TD = dt.timedelta
WD = ['monday', 'tuesday', 'wednesday', 'thursday', 'friday', 'saturday', 'sunday']
CARRIERS = ['{}', '{}', 'I will be back {}', 'it happened {} as far as I know', '{}.', 'I will be back {}, see page 4.']


def addm(y, m, k):
    i = y * 12 + m - 1 + k
    return i // 12, i % 12 + 1


def expected(case):
    """(query expression, entity type, expected values list)"""
    ref = dt.datetime.fromisoformat(case['ref'])
    d = ref.date()
    f = case['family']
    N = case.get('n', 0)

    def date_val(x):
        return [{'timex': x.isoformat(), 'type': 'date', 'value': x.isoformat()}]

    def range_val(a, b, tx):
        return [{'timex': tx, 'type': 'daterange', 'start': a.isoformat(), 'end': b.isoformat()}]
    if f in ('today', 'tomorrow', 'yesterday'):
        return f, 'date', date_val(d + TD({'today': 0, 'tomorrow': 1, 'yesterday': -1}[f]))
    if f == 'N days ago':
        return '%d day%s ago' % (N, 's' if N != 1 else ''), 'date', date_val(d - TD(N))
    if f == 'in N days':
        return 'in %d day%s' % (N, 's' if N != 1 else ''), 'date', date_val(d + TD(N))
    if f == 'N days from now':
        return '%d day%s from now' % (N, 's' if N != 1 else ''), 'date', date_val(d + TD(N))
    if f == 'N weeks ago':
        return '%d week%s ago' % (N, 's' if N != 1 else ''), 'date', date_val(d - TD(7 * N))
    if f == 'in N weeks':
        return 'in %d week%s' % (N, 's' if N != 1 else ''), 'date', date_val(d + TD(7 * N))
    monday = d - TD(days=d.weekday())
    if f in ('next wd', 'last wd', 'this wd'):
        shift = {'next wd': 7, 'last wd': -7, 'this wd': 0}[f]
        return '%s %s' % (f.split()[0], WD[case['wd']]), 'date', date_val(monday + TD(shift + case['wd']))
    w, unit = f.split()
    k = {'this': 0, 'next': 1, 'last': -1}[w]
    if unit == 'week':
        mo = monday + TD(7 * k)
        iso = (mo + TD(3)).isocalendar()
        return f, 'daterange', range_val(mo, mo + TD(7), '%04d-W%02d' % (iso[0], iso[1]))
    if unit == 'month':
        y, m = addm(d.year, d.month, k)
        y2, m2 = addm(y, m, 1)
        return f, 'daterange', range_val(dt.date(y, m, 1), dt.date(y2, m2, 1), '%04d-%02d' % (y, m))
    if unit == 'year':
        return f, 'daterange', range_val(dt.date(d.year + k, 1, 1), dt.date(d.year + k + 1, 1, 1), '%04d' % (d.year + k))
    raise ValueError(f)


def build(case):
    if case['family'] == 'now':
        expr = 'now'
    else:
        expr = expected(case)[0]
    q = case['carrier'].format(expr)
    return q, q.index(expr), expr


def query_of(case):
    q, _, _ = build(case)
    return 'en-us', q, case['ref']


def run_case(case):
    q, pos, expr = build(case)
    if case.get('pre_ref'):
        # the same text asked a moment earlier under another reference must not influence this answer
        G.parse('en-us', q, case['pre_ref'])
    got = G.parse('en-us', q, case['ref'])
    ref = dt.datetime.fromisoformat(case['ref'])
    vs = []
    f = case['family']
    if f == 'now':
        typ, want = 'datetime', [{'timex': 'PRESENT_REF', 'type': 'datetime', 'value': ref.strftime('%Y-%m-%d %H:%M:%S')}]
    else:
        _, typ, want = expected(case)
    ok = len(got) == 1 and G.covers(got[0], q, pos, expr) and got[0]['type'] == 'datetimeV2.' + typ and got[0]['values'] == want
    if not ok:
        vs.append(V('RELATIVE_DATE_WRONG', {'query': q, 'ref': case['ref'], 'weekday_of_ref': ref.strftime('%A'), 'expected': want, 'got': got},
                    bucket=f))
    d = ref.date()
    nt = False
    for v in want:
        for k in ('value', 'start', 'end'):
            x = v.get(k)
            if x and len(x) == 10:
                y = dt.date.fromisoformat(x)
                if (y.year, y.month) != (d.year, d.month) or y.isocalendar()[0] != y.year:
                    nt = True
    return R(vs, nontrivial=nt, labels=['family:' + f], obs={'query': q, 'ref': case['ref'], 'entities': got}, key=[q, case['ref']])


FAMILIES_N = ['N days ago', 'in N days', 'N days from now', 'N weeks ago', 'in N weeks']
FAMILIES_WD = ['next wd', 'last wd', 'this wd']
FAMILIES_PLAIN = ['today', 'tomorrow', 'yesterday', 'now'] + ['%s %s' % (w, u) for w in ('this', 'next', 'last') for u in ('week', 'month', 'year')]


def all_families(ref, ns=(1, 7, 31, 366), carrier_i=0):
    for f in FAMILIES_PLAIN:
        yield {'family': f, 'ref': ref, 'carrier': CARRIERS[carrier_i % 6]}
    for f in FAMILIES_N:
        for n in ns:
            yield {'family': f, 'n': n, 'ref': ref, 'carrier': CARRIERS[(carrier_i + n) % 6]}
    for f in FAMILIES_WD:
        for wd in range(7):
            yield {'family': f, 'wd': wd, 'ref': ref, 'carrier': CARRIERS[(carrier_i + wd) % 6]}


def boundary_enum(step):
    def gen():
        refs = G.boundary_refs()
        for i, r in enumerate(refs):
            if i % step == 0 or (r.month, r.day) in ((2, 29), (12, 31), (1, 1)):
                for case in all_families(r.isoformat(), carrier_i=i):
                    yield case
    return gen


def cases():
    ns = st.one_of(st.integers(1, 5000), st.sampled_from([1, 2, 7, 28, 29, 30, 31, 365, 366, 1000, 5000]))
    fam = st.one_of(
        st.sampled_from(FAMILIES_PLAIN).map(lambda f: {'family': f}),
        st.builds(lambda f, n: {'family': f, 'n': n}, st.sampled_from(FAMILIES_N), ns),
        st.builds(lambda f, w: {'family': f, 'wd': w}, st.sampled_from(FAMILIES_WD), st.integers(0, 6)))
    return st.builds(lambda c, r, ci, pre: dict(c, ref=r, carrier=CARRIERS[ci], pre_ref=pre), fam, G.refs(), st.integers(0, 5),
                     st.one_of(st.none(), st.none(), G.refs()))


def parts(tier, seed):
    q = tier == 'quick'
    return [
        enum_part('boundary-refs-x-families', boundary_enum(4 if q else 1), run_case, exhaustive=True),
        hyp_part('random', cases, run_case, 4000 if q else 200000, min_shard=250),
    ]
