"""C07 - clock times resolve to the right 24-hour time, alone or attached to a date (English)."""
import datetime as dt
import re

from hypothesis import strategies as st

from gens import dt as G
from lib.engine import R, V, enum_part, hyp_part, concurrent_part

ID = 'C07'
RULE = ('exhaustive 24x60 grid of HH:MM (two zero-padding styles alternating), every 12-hour spelling (h am|pm, ham, h:mm am|pm, h:mm:ss pm, h a.m.) '
        'for h in 1..12 with boundary minutes, bare hours ("at h", "h o\'clock"), Hypothesis HH:MM:SS over 24x60x60, and compositions '
        '"<date> at <time>" / "<date> <time>" with absolute dates (3 layouts), today/tomorrow/yesterday and next/this/last <weekday> x reference datetimes; '
        'non-trivial = hour in {0, 12}, or minutes/seconds non-zero, or a composition; distinct = (query, reference); concurrent part: the same generated cases evaluated 2-4 at a time on simultaneous threads (switch interval 10 us), '
        'cases that are clean alone must stay clean')
ASSUMPTIONS = ['a time TIMEX is compared by the time it denotes (T15 = T15:00 = T15:00:00); the value string must be HH:MM:SS exactly']

TX_TIME = re.compile(r'^T(\d{2})(?::(\d{2})(?::(\d{2}))?)?$')
TX_DT = re.compile(r'^(\d{4}-\d{2}-\d{2})T(\d{2})(?::(\d{2})(?::(\d{2}))?)?$')
TX_WD = re.compile(r'^XXXX-WXX-(\d)T(\d{2})(?::(\d{2})(?::(\d{2}))?)?$')
CARRIERS = ['{}', '{}', 'let us meet at {}', 'the call starts {} for everyone', '{}.', '{} is fine , table for 4.']
AT_CARRIERS = ['at {}', 'let us meet at {}']


def readings(case):
    """set of (h, m, s) the statement demands"""
    H, m, s, marker = case['h'], case.get('m') or 0, case.get('s') or 0, case['marker']
    if marker == 'am':
        return {(H % 12, m, s)}
    if marker == 'pm':
        return {(H % 12 + 12, m, s)}
    if H == 0 or H >= 13:
        return {(H, m, s)}
    return {(H % 24, m, s), ((H + 12) % 24, m, s)}


def time_text(case):
    H, m, s, marker, form = case['h'], case.get('m'), case.get('s'), case['marker'], case['form']
    if form == 'HH:MM':
        t = '%02d:%02d' % (H, m)
    elif form == 'H:MM':
        t = '%d:%02d' % (H, m)
    elif form == 'HH:MM:SS':
        t = '%02d:%02d:%02d' % (H, m, s)
    elif form == 'H:MM:SS':
        t = '%d:%02d:%02d' % (H, m, s)
    elif form == 'H':
        t = '%d' % H
    elif form == "H o'clock":
        return "%d o'clock" % H
    else:
        raise ValueError(form)
    if marker in ('am', 'pm'):
        style = case.get('mstyle', ' am')
        t += {' am': ' ' + marker, 'am': marker, ' a.m.': ' ' + marker[0] + '.m.', ' AM': ' ' + marker.upper()}[style]
    return t


def date_part(case):
    """(text, date) of the date expression of a composition, None otherwise"""
    dk = case.get('date')
    if not dk:
        return None
    ref = dt.datetime.fromisoformat(case['ref'])
    if dk['kind'] == 'abs':
        d = dt.date.fromisoformat(dk['iso'])
        return G.EN_LAYOUTS[dk['layout']](d), d
    if dk['kind'] == 'weekday':
        # 'next/this/last <weekday>': that weekday of the following/current/preceding ISO week (C08)
        monday = ref.date() - dt.timedelta(days=ref.weekday())
        shift = {'next': 7, 'this': 0, 'last': -7}[dk['which']]
        return '%s %s' % (dk['which'], G.EN_WEEKDAYS[dk['wd']].lower()), monday + dt.timedelta(days=shift + dk['wd'])
    if dk['kind'] == 'bare-weekday':
        # a bare weekday name has two candidate dates (C09): the latest before and the earliest on/after the reference date
        fut = ref.date() + dt.timedelta(days=(dk['wd'] - ref.weekday()) % 7)
        return G.EN_WEEKDAYS[dk['wd']].lower(), [fut - dt.timedelta(days=7), fut]
    off = {'today': 0, 'tomorrow': 1, 'yesterday': -1}[dk['word']]
    return dk['word'], ref.date() + dt.timedelta(days=off)


def build(case):
    t = time_text(case)
    dp = date_part(case)
    if dp:
        expr = dp[0] + (' at ' if case.get('joiner', 'at') == 'at' else ' ') + t
    else:
        expr = t
    q = case['carrier'].format(expr)
    return q, q.index(expr), expr, dp


def query_of(case):
    q, _, _, _ = build(case)
    return 'en-us', q, case['ref']


def run_case(case):
    q, pos, expr, dp = build(case)
    got = G.parse('en-us', q, case['ref'])
    want = readings(case)
    vs = []
    bucket = case['form'] + ':' + case['marker'] + (':composed' if dp else '')
    ok = len(got) == 1 and G.covers(got[0], q, pos, expr) and got[0]['values'] is not None
    have = set()
    pairs = set()
    if ok:
        e = got[0]
        if dp:
            ok = e['type'] == 'datetimeV2.datetime'
            for v in e['values']:
                yearless = isinstance(dp[1], list)
                m = (TX_WD if yearless else TX_DT).match(v.get('timex') or '')
                val = v.get('value')
                if not (m and v.get('type') == 'datetime' and isinstance(val, str) and G.ok_datetime(val)):
                    ok = False
                    break
                vv = (val[:10], int(val[11:13]), int(val[14:16]), int(val[17:19]))
                if yearless:
                    # the TIMEX leaves the week open (XXXX-WXX-d): it must name the weekday of the value and the same clock time
                    wd_ok = int(m.group(1)) == dt.date.fromisoformat(val[:10]).isoweekday()
                    tx = (val[:10] if wd_ok else 'wrong weekday', int(m.group(2)), int(m.group(3) or 0), int(m.group(4) or 0))
                else:
                    tx = (m.group(1), int(m.group(2)), int(m.group(3) or 0), int(m.group(4) or 0))
                dates_ok = [d.isoformat() for d in dp[1]] if isinstance(dp[1], list) else [dp[1].isoformat()]
                if tx != vv or val[:10] not in dates_ok:
                    ok = False
                    break
                have.add(vv[1:])
                pairs.add(vv)
        else:
            ok = e['type'] == 'datetimeV2.time'
            for v in e['values']:
                m = TX_TIME.match(v.get('timex') or '')
                val = v.get('value')
                if not (m and v.get('type') == 'time' and isinstance(val, str) and G.ok_time(val)):
                    ok = False
                    break
                tx = (int(m.group(1)), int(m.group(2) or 0), int(m.group(3) or 0))
                vv = (int(val[0:2]), int(val[3:5]), int(val[6:8]))
                if tx != vv:
                    ok = False
                    break
                have.add(vv)
        ndates = len(dp[1]) if dp and isinstance(dp[1], list) else 1
        if ok and (have != want or len(e['values']) != len(want) * ndates):
            ok = False
        if ok and dp and isinstance(dp[1], list):
            # every candidate date must come with every reading: the values are (date, time) PAIRS
            if pairs != {(d.isoformat(),) + r for d in dp[1] for r in want}:
                ok = False
    if not ok:
        vs.append(V('TIME_WRONG', {'query': q, 'ref': case['ref'], 'expected_readings': sorted(want), 'expected_date': ([d.isoformat() for d in dp[1]] if isinstance(dp[1], list) else dp[1].isoformat()) if dp else None,
                                   'got': got}, bucket=bucket))
    nt = case['h'] in (0, 12) or bool(case.get('m')) or bool(case.get('s')) or bool(dp)
    return R(vs, nontrivial=nt, labels=['form:' + case['form'], 'marker:' + case['marker'], 'composed' if dp else 'time-only',
                                        'readings:%d' % len(want)], obs={'query': q, 'entities': got}, key=[q, case['ref'] if dp else ''])


# ---- generators ----------------------------------------------------------------------------------------------------------
REF0 = '2016-11-07T08:30:00'


def grid():
    for h in range(24):
        for m in range(60):
            yield {'h': h, 'm': m, 'marker': 'none', 'form': 'HH:MM', 'carrier': CARRIERS[(h + m) % 6], 'ref': REF0}
            if h < 10 and m % 7 == 0:
                yield {'h': h, 'm': m, 'marker': 'none', 'form': 'H:MM', 'carrier': '{}', 'ref': REF0}


def twelve_hour():
    for h in range(1, 13):
        for marker in ('am', 'pm'):
            for style in (' am', 'am', ' a.m.', ' AM'):
                yield {'h': h, 'marker': marker, 'form': 'H', 'mstyle': style, 'carrier': CARRIERS[h % 6], 'ref': REF0}
            for m in (0, 1, 5, 15, 30, 59):
                yield {'h': h, 'm': m, 'marker': marker, 'form': 'H:MM', 'mstyle': ' am', 'carrier': CARRIERS[(h + m) % 6], 'ref': REF0}
                yield {'h': h, 'm': m, 'marker': marker, 'form': 'H:MM', 'mstyle': 'am', 'carrier': '{}', 'ref': REF0}
                for s in (0, 5, 59):
                    yield {'h': h, 'm': m, 's': s, 'marker': marker, 'form': 'H:MM:SS', 'mstyle': ' am', 'carrier': '{}', 'ref': REF0}
        for c in AT_CARRIERS:
            yield {'h': h, 'marker': 'none', 'form': 'H', 'carrier': c, 'ref': REF0}
        yield {'h': h, 'marker': 'none', 'form': "H o'clock", 'carrier': '{}', 'ref': REF0}
    for h in range(13, 24):
        yield {'h': h, 'marker': 'none', 'form': 'H', 'carrier': 'at {}', 'ref': REF0}


def seconds_cases():
    edge = st.sampled_from([0, 1, 9, 10, 30, 59])
    return st.builds(lambda h, m, s, f, c: {'h': h, 'm': m, 's': s, 'marker': 'none', 'form': f, 'carrier': c, 'ref': REF0},
                     st.integers(0, 23), st.one_of(st.integers(0, 59), edge), st.one_of(st.integers(0, 59), edge),
                     st.sampled_from(['HH:MM:SS', 'HH:MM:SS', 'H:MM:SS']), st.sampled_from(CARRIERS))


def composed_cases():
    dates = st.one_of(
        st.builds(lambda d, l: {'kind': 'abs', 'iso': d.isoformat(), 'layout': l}, G.dates(), st.sampled_from(['iso', 'Month d, yyyy', 'm/d/yyyy'])),
        st.sampled_from(['today', 'tomorrow', 'yesterday']).map(lambda w: {'kind': 'rel', 'word': w}),
        st.builds(lambda w, i: {'kind': 'weekday', 'which': w, 'wd': i}, st.sampled_from(['next', 'this', 'last']), st.integers(0, 6)),
        st.integers(0, 6).map(lambda i: {'kind': 'bare-weekday', 'wd': i}))
    hm24 = st.builds(lambda h, m: {'h': h, 'm': m, 'marker': 'none', 'form': 'HH:MM'}, st.integers(0, 23), st.integers(0, 59))
    hm12 = st.builds(lambda h, m, mk, stl: {'h': h, 'm': m, 'marker': mk, 'form': 'H:MM', 'mstyle': stl}, st.integers(1, 12),
                     st.sampled_from([0, 5, 30, 59]), st.sampled_from(['am', 'pm']), st.sampled_from([' am', 'am']))
    h12 = st.builds(lambda h, mk, stl: {'h': h, 'marker': mk, 'form': 'H', 'mstyle': stl}, st.integers(1, 12), st.sampled_from(['am', 'pm']),
                    st.sampled_from([' am', 'am']))
    hms = st.builds(lambda h, m, s: {'h': h, 'm': m, 's': s, 'marker': 'none', 'form': 'HH:MM:SS'}, st.integers(0, 23), st.integers(0, 59),
                    st.integers(0, 59))

    def mk(t, d, j, r, c):
        t = dict(t)
        t.update({'date': d, 'joiner': j, 'ref': r, 'carrier': c})
        return t
    return st.builds(mk, st.one_of(hm24, hm12, h12, hms), dates, st.sampled_from(['at', 'at', 'blank']), G.refs(),
                     st.sampled_from(['{}', '{}', 'the call is {} for everyone', '{}.']))


def parts(tier, seed):
    q = tier == 'quick'
    return [
        enum_part('grid-HHMM', grid, run_case, exhaustive=True),
        enum_part('twelve-hour-forms', twelve_hour, run_case, exhaustive=True),
        hyp_part('HHMMSS', seconds_cases, run_case, 1000 if q else 40000, min_shard=200),
        hyp_part('date-plus-time', composed_cases, run_case, 1500 if q else 20000, min_shard=150),
        concurrent_part('concurrent', lambda: st.one_of(seconds_cases(), composed_cases()), run_case, 200 if q else 4000, min_shard=40),
    ]
