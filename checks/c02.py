"""C02 - recognition is a pure function of (query, culture, options, reference date).

Reference model: the answers of a single sequential caller in a FRESH process (forked child, empty model cache), computed
once in pool order and once in reversed pool order (the two must already agree).  A Hypothesis rule-based state machine then
drives histories - helper calls, calls through a long-lived recogniser, batches on harness-owned threads released by a
barrier, cache clears, permuted repetitions - and after every rule every answer obtained must equal the reference answer of
its tuple.
"""
import datetime as dt
import json
import multiprocessing as mp
import sys
import threading

import hypothesis
from hypothesis import strategies as st
from hypothesis.stateful import RuleBasedStateMachine, initialize, invariant, rule

from gens import numwords
from lib import corpus, engine
from lib.engine import R, V, custom_part, enum_part, machine_part

ID = 'C02'
RULE = ('pool of (model function, query, culture, options, reference) tuples: a seeded sample of supported Specs inputs over all recognisers and '
        'cultures plus generated families that exercise Decimal arithmetic (fractions, long decimals), related queries sharing a sub-expression '
        '(the same date with and without before/after/since, the same IP/number at different offsets), es-es/es-mx decimal unit amounts, '
        'date-time options (skip-from-to, split, both, calendar) x every date-time culture x calendar-mode phrases and sampled spec inputs; '
        'histories = Hypothesis rule-based machine over {helper call, call through a long-lived recogniser, threaded batch of 2-8 threads, '
        'cache clear, permuted repetition}; non-trivial = history in which a tuple with a non-empty reference answer is evaluated under two '
        'different conditions (main vs worker thread, warm vs cleared cache, two positions); distinct = distinct history (rule trace)')
ASSUMPTIONS = ['thread interleavings are sampled by real threads under the GIL (switch interval 200 microseconds), not enumerated',
               'the reference answers come from a forked child process with an empty ModelFactory cache']

FUNCS = {
    'number': ('recognizers_number', 'recognize_number'), 'ordinal': ('recognizers_number', 'recognize_ordinal'),
    'percentage': ('recognizers_number', 'recognize_percentage'),
    'age': ('recognizers_number_with_unit', 'recognize_age'), 'currency': ('recognizers_number_with_unit', 'recognize_currency'),
    'dimension': ('recognizers_number_with_unit', 'recognize_dimension'), 'temperature': ('recognizers_number_with_unit', 'recognize_temperature'),
    'datetime': ('recognizers_date_time', 'recognize_datetime'),
    'phone_number': ('recognizers_sequence', 'recognize_phone_number'), 'ip_address': ('recognizers_sequence', 'recognize_ip_address'),
    'mention': ('recognizers_sequence', 'recognize_mention'), 'hashtag': ('recognizers_sequence', 'recognize_hashtag'),
    'email': ('recognizers_sequence', 'recognize_email'), 'url': ('recognizers_sequence', 'recognize_url'), 'guid': ('recognizers_sequence', 'recognize_guid'),
    'boolean': ('recognizers_choice', 'recognize_boolean'),
}
RECOGNIZERS = {
    'number': ('recognizers_number.number.number_recognizer', 'NumberRecognizer'), 'ordinal': ('recognizers_number.number.number_recognizer', 'NumberRecognizer'),
    'percentage': ('recognizers_number.number.number_recognizer', 'NumberRecognizer'),
    'age': ('recognizers_number_with_unit.number_with_unit.number_with_unit_recognizer', 'NumberWithUnitRecognizer'),
    'currency': ('recognizers_number_with_unit.number_with_unit.number_with_unit_recognizer', 'NumberWithUnitRecognizer'),
    'dimension': ('recognizers_number_with_unit.number_with_unit.number_with_unit_recognizer', 'NumberWithUnitRecognizer'),
    'temperature': ('recognizers_number_with_unit.number_with_unit.number_with_unit_recognizer', 'NumberWithUnitRecognizer'),
    'datetime': ('recognizers_date_time.date_time.date_time_recognizer', 'DateTimeRecognizer'),
    'phone_number': ('recognizers_sequence.sequence.sequence_recognizer', 'SequenceRecognizer'),
    'ip_address': ('recognizers_sequence.sequence.sequence_recognizer', 'SequenceRecognizer'),
    'mention': ('recognizers_sequence.sequence.sequence_recognizer', 'SequenceRecognizer'), 'hashtag': ('recognizers_sequence.sequence.sequence_recognizer', 'SequenceRecognizer'),
    'email': ('recognizers_sequence.sequence.sequence_recognizer', 'SequenceRecognizer'), 'url': ('recognizers_sequence.sequence.sequence_recognizer', 'SequenceRecognizer'),
    'guid': ('recognizers_sequence.sequence.sequence_recognizer', 'SequenceRecognizer'),
    'boolean': ('recognizers_choice.choice.recognizers_choice', 'ChoiceRecognizer'),
}
SPEC_MODEL = {'NumberModel': 'number', 'OrdinalModel': 'ordinal', 'PercentModel': 'percentage', 'AgeModel': 'age', 'CurrencyModel': 'currency',
              'DimensionModel': 'dimension', 'TemperatureModel': 'temperature', 'DateTimeModel': 'datetime', 'PhoneNumberModel': 'phone_number',
              'IpAddressModel': 'ip_address', 'MentionModel': 'mention', 'HashtagModel': 'hashtag', 'EmailModel': 'email', 'URLModel': 'url',
              'GUIDModel': 'guid', 'BooleanModel': 'boolean'}
POOL = None
REFERENCE = None
_LONGLIVED = {}


def build_pool(seed):
    pool = []
    seen = set()

    def add(model, q, culture, ref='2016-11-07T12:00:00', options=0):
        k = (model, q, culture, ref, options)
        if k not in seen:
            seen.add(k)
            pool.append({'model': model, 'q': q, 'culture': culture, 'ref': ref, 'options': options})
    # 1. seeded sample of supported spec inputs (model files only)
    es = [e for e in corpus.entries() if e['file'].replace('.json', '') in SPEC_MODEL and e['culture'] != 'ja-jp']
    per = {}
    for i, e in enumerate(es):
        h = (i * 2654435761 + seed * 7919) % 1000
        key = (e['culture'], e['file'])
        if h < 60 and per.get(key, 0) < 6:
            per[key] = per.get(key, 0) + 1
            add(SPEC_MODEL[e['file'].replace('.json', '')], e['input'], e['culture'], e['ref'])
    # 2. Decimal arithmetic
    for c, qs in {'en-us': ['one third', 'two thirds', '1/3', 'five sevenths of a mile', '1,234.5', '0.1 and 0.2', 'one hundred and one fifth',
                            'three and one seventh', '22/7', '1,000,000.123456789', '12.5%', 'a third of 100 dollars'],
                  'zh-cn': ['三分之一', '七分之二', '一又三分之二', '百分之三十三点三', '1/3', '三点一四'],
                  'fr-fr': ['un tiers', 'deux tiers', '1/3', '1,5'], 'es-es': ['un tercio', 'dos tercios', '1/3', '1,5'],
                  'de-de': ['ein drittel', '1/3', '2,5'], 'pt-br': ['um terço', '1/3'], 'it-it': ['un terzo', '1/3'], 'nl-nl': ['een derde', '1/3']}.items():
        for q in qs:
            add('number', q, c)
            add('percentage', q, c)
    # 3. related queries sharing a sub-expression (a memo keyed by text would leak between them)
    for d in ['March 14, 2015', '3/14/2015', '2015-03-14', 'May 5', 'next monday', '14 March 2015 3pm']:
        for frame in ['{}', 'I left before {}', 'after {}', 'since {} I have been here', 'until {}', 'on {} and then again {}']:
            add('datetime', frame.format(d, d), 'en-us')
            add('datetime', frame.format(d, d), 'en-us', ref='2019-12-31T23:59:59')
    for lit in ['10.0.0.1', '::1', 'fe80::1ff:fe23:4567:890a']:
        for frame in ['{}', 'My PC IP address is {}', '{} is the ip address', 'ping {} and {}']:
            add('ip_address', frame.format(lit, lit), 'en-us')
    for frame in ['{}', 'call me at {} please', '  {}']:
        add('phone_number', frame.format('(206) 555-0100'), 'en-us')
        add('guid', frame.format('123e4567-e89b-12d3-a456-426614174000'), 'en-us')
        add('email', frame.format('some.one@example.com'), 'en-us')
    for n in (21, 105, 1234567):
        for frame in ['{}', 'i have {} of them', 'minus {}', '{} and {}']:
            add('number', frame.format(numwords.en(n), numwords.en(n + 1)), 'en-us')
    for frame in ['{}', 'it lasted {}', 'wait {} please']:
        for d in ['3 days', '45 minutes', '5 hours', '7 years', '2 weeks', '90 seconds', '1 month']:
            add('datetime', frame.format(d), 'en-us')
    # 4. two cultures of one language with different number formats
    for c in ('es-es', 'es-mx'):
        for q in ['cuesta 1,5 euros', 'cuesta 1.5 euros', 'pesa 2,5 kg', 'mide 3.25 metros', 'tiene 10 años', '37,5 grados', '1.234,5', '1,234.5']:
            for m in ('currency', 'dimension', 'age', 'temperature', 'number'):
                add(m, q, c)
    for c in ('en-us', 'fr-fr', 'es-es', 'es-mx', 'pt-br', 'de-de', 'it-it', 'nl-nl'):
        for q in ['1.234,56', '1,234.56', '1,234', '1.234', '12,345', '-12.345', '1,234,567', '1.234.567', '12,5%', '12.5%']:
            add('number', q, c)
            add('percentage', q, c)
    # the same query in other letter cases (a memo keyed by the lower-cased text would leak the first spelling)
    for q in ['yes', 'YES', 'Yes', 'not ok', '(Not OK)', '(not ok)', 'NOT OK', 'İ know yes', 'ok', 'OK', 'Ok then']:
        add('boolean', q, 'en-us')
    for q in ['tomorrow at 3pm', 'TOMORROW AT 3PM', 'Tomorrow At 3PM', 'next Monday', 'NEXT MONDAY', 'next monday']:
        add('datetime', q, 'en-us')
    for q in ['twenty one', 'Twenty One', 'TWENTY ONE', '5 KM', '5 km', '5 Km']:
        add('number', q, 'en-us')
        add('dimension', q, 'en-us')
    # the same text under references that differ only in the seconds / only in the year (a memo keyed by a truncated reference would leak)
    for q in ['now', 'I will leave now', 'in 5 minutes', 'tomorrow', '3 hours ago']:
        for ref in ['2016-11-07T12:00:05', '2016-11-07T12:00:20', '2016-11-07T12:00:50', '2017-11-07T12:00:05']:
            add('datetime', q, 'en-us', ref=ref)
    # 5. options of the date-time recogniser
    for o in (0, 1, 2, 4):
        add('datetime', 'from 4pm to 5pm tomorrow', 'en-us', options=o)
        add('datetime', 'the week', 'en-us', options=o)
    # ... in every date-time culture: the phrases the calendar / split / extended modes exist for, and a seeded sample of the culture's own
    # spec inputs under each option (a model built for one option value is cached separately; state kept inside it must not show)
    calendar_phrases = {
        'en-us': ['Hey, we got a partner of the month.', 'Hey, we got a partner of the week.', 'Nice day.', "I'm blocked for the day", 'Have a great week!',
                  'schedule me a 1:1 meeting', 'Schedule a meeting before 4', 'I will leave tomorrow three'],
        'nl-nl': ['partner van de week', 'werknemer van de maand', 'dit is de dag', 'fijne dag', 'morgen om 3'],
        'es-es': ['el empleado del mes', 'socio de la semana', 'buen día', 'mañana a las 3'],
        'fr-fr': ['employé du mois', 'partenaire de la semaine', 'bonne journée', 'demain à 3'],
        'pt-br': ['funcionário do mês', 'parceiro da semana', 'bom dia', 'amanhã às 3'],
        'de-de': ['mitarbeiter des monats', 'partner der woche', 'schönen tag', 'morgen um 3'],
        'it-it': ['impiegato del mese', 'partner della settimana', 'buona giornata', 'domani alle 3'],
        'zh-cn': ['本月最佳员工', '本周合作伙伴', '明天3点', '祝你有美好的一天'],
    }
    dt_es = [e for e in corpus.entries() if e['file'] == 'DateTimeModel.json']
    for c, phrases in calendar_phrases.items():
        own = [e for e in dt_es if e['culture'] == c and len(e['input']) < 80]
        picked = [own[(i * 7919 + seed * 104729) % len(own)] for i in range(3)] if own else []
        for o in (1, 2, 3, 4):     # the recogniser rejects option values above CALENDAR
            for q in phrases:
                add('datetime', q, c, options=o)
            for e in picked:
                add('datetime', e['input'], c, ref=e['ref'], options=o)
        for q in phrases:
            add('datetime', q, c)
    return pool


def _options_obj(model, options):
    if model == 'datetime':
        from recognizers_date_time.date_time.utilities import DateTimeOptions
        return DateTimeOptions(options)
    return None


def call_helper(t):
    import importlib
    mod, fn = FUNCS[t['model']]
    f = getattr(importlib.import_module(mod), fn)
    if t['model'] == 'datetime':
        res = f(t['q'], t['culture'], _options_obj('datetime', t['options']), dt.datetime.fromisoformat(t['ref']))
    else:
        res = f(t['q'], t['culture'])
    return canon(res)


def call_longlived(t):
    import importlib
    key = (t['model'] if t['model'] != 'datetime' else 'datetime%d' % t['options'], t['culture'])
    rkey = (RECOGNIZERS[t['model']], t['culture'], t['options'] if t['model'] == 'datetime' else 0)
    if rkey not in _LONGLIVED:
        mod, cls = RECOGNIZERS[t['model']]
        C = getattr(importlib.import_module(mod), cls)
        _LONGLIVED[rkey] = C(t['culture'], _options_obj('datetime', t['options'])) if t['model'] == 'datetime' else C(t['culture'])
    rec = _LONGLIVED[rkey]
    model = getattr(rec, 'get_%s_model' % t['model'])(t['culture'])
    res = model.parse(t['q'], dt.datetime.fromisoformat(t['ref'])) if t['model'] == 'datetime' else model.parse(t['q'])
    return canon(res)


def canon(results):
    return json.dumps([{'text': r.text, 'start': r.start, 'end': r.end, 'type': r.type_name, 'resolution': r.resolution} for r in results],
                      sort_keys=True, ensure_ascii=False, default=str)


def clear_cache(culture=None):
    """back to the cold (first use) state: for every culture, or for one culture only (cheaper, same mechanism)"""
    from recognizers_text.model import ModelFactory
    cache = ModelFactory._ModelFactory__cache
    if culture is None:
        cache.clear()
        _LONGLIVED.clear()
        return
    for k in [k for k in cache if k.culture == culture]:
        del cache[k]
    for k in [k for k in _LONGLIVED if k[1] == culture]:
        del _LONGLIVED[k]


def reference_in_fresh_process(pool, order):
    """answers of a sequential caller in a forked child with an empty cache, evaluated in the given order"""
    ctx = mp.get_context('fork')
    rd, wr = ctx.Pipe(duplex=False)

    def body():
        try:
            clear_cache()
            out = {}
            for i in order:
                out[i] = call_helper(pool[i])
            wr.send(out)
        except BaseException as e:
            wr.send({'error': repr(e)})
        finally:
            import os
            os._exit(0)
    p = ctx.Process(target=body)
    p.start()
    wr.close()
    out = rd.recv()
    p.join()
    if 'error' in out:
        raise RuntimeError('reference computation failed: ' + out['error'])
    return out


def warm(tier):
    global POOL, REFERENCE
    import os
    if POOL is not None:
        return
    seed = int(os.environ.get('VERIF_SEED', '1') or 1)
    POOL = build_pool(seed)
    n = len(POOL)
    from concurrent.futures import ThreadPoolExecutor
    with ThreadPoolExecutor(2) as ex:       # the two references are computed by two forked children at the same time
        fa = ex.submit(reference_in_fresh_process, POOL, list(range(n)))
        fb = ex.submit(reference_in_fresh_process, POOL, list(range(n - 1, -1, -1)))
        REFERENCE = (fa.result(), fb.result())


def run_reference_agreement(ctx):
    """part 1: the two sequential references (pool order / reversed order, two fresh processes) must agree"""
    a, b = REFERENCE
    for i, t in enumerate(POOL):
        case = {'tuple': t, 'orders': ['pool order', 'reversed pool order']}

        def fn(case, i=i, t=t):
            vs = []
            if a[i] != b[i]:
                vs.append(V('ORDER_DEPENDENT', {'tuple': t, 'answer_in_pool_order': a[i][:600], 'answer_in_reversed_order': b[i][:600]},
                            bucket='ORDER:%s:%s' % (t['model'], t['culture'])))
            return R(vs, nontrivial=a[i] != '[]', labels=['reference', 'model:' + t['model']], obs={'tuple': t, 'answer': a[i][:300]}, key=t)
        new, r = ctx.process(case, fn=fn)
        for v in new:
            ctx.add_violation(case, v, r.obs)


def check_answer(t_index, answer, condition, trace):
    """returns a V or None"""
    ref = REFERENCE[0][t_index]
    if answer != ref:
        t = POOL[t_index]
        return V('ANSWER_DIFFERS_FROM_SEQUENTIAL_REFERENCE', {'tuple': t, 'condition': condition, 'reference': ref[:700], 'got': answer[:700]},
                 bucket='DIFF:%s:%s:%s' % (t['model'], t['culture'], condition.split(':')[0]))
    return None


def run_batch(indices, nthreads, fn, switch=2e-4):
    """evaluate tuples on harness-owned threads released together; returns [(index, answer)]"""
    out = []
    lock = threading.Lock()
    barrier = threading.Barrier(nthreads)
    chunks = [indices[k::nthreads] for k in range(nthreads)]
    errors = []

    def worker(chunk):
        try:
            barrier.wait(timeout=30)
            for i in chunk:
                ans = fn(POOL[i])
                with lock:
                    out.append((i, ans))
        except BaseException as e:
            errors.append(repr(e))
    old = sys.getswitchinterval()
    sys.setswitchinterval(switch)
    try:
        ths = [threading.Thread(target=worker, args=(c,)) for c in chunks]
        for th in ths:
            th.start()
        for th in ths:
            th.join()
    finally:
        sys.setswitchinterval(old)
    if errors:
        raise RuntimeError('worker thread failed: %s' % errors[0])
    return out


def make_machine():
    n = len(POOL)
    idx = st.integers(0, n - 1)
    # every history works on a small FOCUS set of tuples, so that the same tuple is met again under other conditions;
    # related tuples sit next to each other in the pool: the focus is a window or a scattered set
    focus_sets = st.one_of(st.lists(idx, min_size=3, max_size=6, unique=True),
                           st.builds(lambda s, k: list(range(s, min(n, s + k))), idx, st.integers(3, 7)),
                           st.builds(lambda s, k, o: list(range(s, min(n, s + k))) + o, idx, st.integers(2, 4), st.lists(idx, min_size=1, max_size=2)))
    pos = st.integers(0, 6)
    pos_list = st.lists(pos, min_size=1, max_size=6)

    class PurityMachine(RuleBasedStateMachine):
        def __init__(self):
            super().__init__()
            self.trace = []
            self.conditions = {}      # tuple index -> set of conditions under which it was evaluated
            self.pending = None
            self.clears = 0
            self.focus = [0]

        @initialize(f=focus_sets)
        def choose_focus(self, f):
            self.focus = f

        def _ix(self, p):
            return self.focus[p % len(self.focus)]

        def _note(self, i, answer, condition):
            ctx = engine.current()
            if ctx is not None:
                ctx.heartbeat()
            self.conditions.setdefault(i, set()).add(condition.split(':')[0] + (':after-clear' if self.clears else ''))
            v = check_answer(i, answer, condition, self.trace)
            if v is not None and self.pending is None:
                self.pending = v

        @rule(p=pos)
        def helper_call(self, p):
            i = self._ix(p)
            self.trace.append(['helper', i])
            self._note(i, call_helper(POOL[i]), 'main-thread:helper')

        @rule(p=pos)
        def longlived_call(self, p):
            i = self._ix(p)
            self.trace.append(['longlived', i])
            self._note(i, call_longlived(POOL[i]), 'main-thread:long-lived recogniser')

        @rule(ps=pos_list, nthreads=st.integers(2, 8), longlived=st.booleans())
        def threaded_batch(self, ps, nthreads, longlived):
            ix = [self._ix(p) for p in ps]
            self.trace.append(['threads', nthreads, ix, longlived])
            ix2 = (ix * nthreads)[:max(len(ix), 2 * nthreads)]
            for i, ans in run_batch(ix2, nthreads, call_longlived if longlived else call_helper):
                self._note(i, ans, 'worker-thread:%d threads' % nthreads)

        @rule(whole=st.booleans())
        def clear(self, whole):
            if self.clears >= 3:
                return
            self.clears += 1
            c = None if whole else POOL[self.focus[0]]['culture']
            self.trace.append(['clear_cache', c])
            clear_cache(c)

        @rule(ps=pos_list, rev=st.booleans())
        def permute_and_repeat(self, ps, rev):
            ix = [self._ix(p) for p in ps]
            order = list(reversed(ix)) if rev else ix
            self.trace.append(['repeat', order])
            for i in order + order:
                self._note(i, call_helper(POOL[i]), 'main-thread:repeated')

        @invariant()
        def answers_equal_reference(self):
            if self.pending is not None:
                v = self.pending
                ctx = engine.current()
                ctx.last_fail = ({'trace': self.trace}, v, {'trace_length': len(self.trace)})
                raise AssertionError(v.kind)

        def teardown(self):
            ctx = engine.current()
            if ctx is None or not self.trace:
                return
            two = any(len(c) >= 2 and REFERENCE[0][i] != '[]' for i, c in self.conditions.items())
            kinds = sorted({s[0] for s in self.trace})
            evals = 0
            for s in self.trace:
                evals += {'helper': 1, 'longlived': 1, 'clear_cache': 0}.get(s[0], 0)
                if s[0] == 'threads':
                    evals += max(len(s[2]), 2 * s[1])
                if s[0] == 'repeat':
                    evals += 2 * len(s[1])
            r = R([], nontrivial=two, labels=['history'] + ['rule:' + k for k in kinds] + (['two-conditions'] if two else []),
                  obs={'focus': [POOL[i]['q'][:40] for i in self.focus[:4]], 'trace': self.trace[:10]}, key=self.trace, evals=max(evals, 1))
            ctx.stats.record(ctx.part, {'trace': self.trace[:20]}, r)

    return PurityMachine


def replay_trace(case):
    """replay a recorded rule trace without Hypothesis"""
    vs = []
    for s in case['trace']:
        if s[0] == 'helper':
            pairs = [(s[1], call_helper(POOL[s[1]]), 'main-thread:helper')]
        elif s[0] == 'longlived':
            pairs = [(s[1], call_longlived(POOL[s[1]]), 'main-thread:long-lived recogniser')]
        elif s[0] == 'threads':
            ix2 = (s[2] * s[1])[:max(len(s[2]), 2 * s[1])]
            pairs = [(i, a, 'worker-thread:%d threads' % s[1]) for i, a in run_batch(ix2, s[1], call_longlived if s[3] else call_helper)]
        elif s[0] == 'clear_cache':
            clear_cache(s[1] if len(s) > 1 else None)
            pairs = []
        else:
            pairs = [(i, call_helper(POOL[i]), 'main-thread:repeated') for i in s[1] + s[1]]
        for i, a, cond in pairs:
            v = check_answer(i, a, cond, None)
            if v is not None:
                vs.append(v)
                return R(vs, nontrivial=True)
    return R(vs, nontrivial=True)


def run_soak(ctx):
    """cold cache, then the pool on harness threads: a sixth of the pool x3 on 4 threads (quick), the whole pool x3 on 8 threads (thorough)"""
    clear_cache()
    n = len(POOL)
    if ctx.tier == 'quick':
        ix = [i for i in range(n) if i % 6 == ctx.seed % 6] * 3
        res = run_batch(ix, 4, call_helper, switch=1e-3)
    else:
        ix = list(range(n)) * 3
        res = run_batch(ix, 8, call_helper, switch=1e-3)
    for i, ans in res:
        case = {'soak_tuple': i}

        def fn(case, i=i, ans=ans):
            v = check_answer(i, ans, 'worker-thread:soak 8 threads', None)
            return R([v] if v else [], nontrivial=REFERENCE[0][i] != '[]', labels=['soak'], obs={'tuple': POOL[i]}, key=['soak', i])
        new, r = ctx.process(case, fn=fn)
        for v in new:
            if ctx.stats.vcount.get(v.bucket, 0) < 2:
                ctx.add_violation({'trace': [['clear_cache'], ['threads', 8, [i], False]]}, v, r.obs)
            else:
                ctx.stats.vcount[v.bucket] += 1


def parts(tier, seed):
    q = tier == 'quick'
    if POOL is None:
        warm(tier)
    return [
        custom_part('reference-order-agreement', run_reference_agreement, replay=lambda case: R([], nontrivial=True)),
        machine_part('histories', make_machine, 96 if q else 960, steps=20 if q else 50, min_shard=6, replay=replay_trace, hang_s=120),
        custom_part('soak-threads-cold-cache', run_soak, replay=replay_trace),
    ]
