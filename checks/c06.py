"""C06 - absolute calendar dates are recognised exactly, whatever the reference date."""
import datetime as dt

from hypothesis import strategies as st

from gens import dt as G
from lib.engine import R, V, enum_part, hyp_part, concurrent_part

ID = 'C06'
RULE = ('dates 1900-01-01..2099-12-31 (Hypothesis, biased to month ends, leap days incl. 2000-02-29, day<=12 vs >12) x every layout of the culture '
        '(16 English layouts; ISO, numeric day-first with / - ., month-name layout for es, fr, pt, it, de, nl; ISO and 年月日 for zh) x two reference '
        'datetimes 1950-2090 (the second one in 4 of 7 cases related to the written date: same year, same day, day after, Dec 31 of that year) x carrier; '
        'day written as an ordinal word/sign (en fourteenth of March 2019, pt/es 1º de ..., it 1°, fr 1er/premier, nl 14e, de zweiten) x every month x references '
        'in another year / the same year / on the same day (enumerated); thorough adds every day of 8 years x every English layout; non-trivial = day <= 12 and day != month '
        '(a swap would show), or a leap day, or a month end; distinct = (culture, query); concurrent part: the same generated cases evaluated 2-4 at a time on simultaneous threads (switch interval 10 us), '
        'cases that are clean alone must stay clean')
ASSUMPTIONS = ['month names and layouts are typed into the harness; carriers are static sentences']


def build(case):
    d = dt.date.fromisoformat(case['date'])
    expr = G.any_layout(case['culture'], case['layout'])(d)
    q = case['carrier'].format(expr)
    return q, q.index(expr), expr, d


def query_of(case):
    q, _, _, _ = build(case)
    return case['culture'], q, case['ref']


def run_case(case):
    c = case['culture']
    q, pos, expr, d = build(case)
    vs = []
    iso = d.isoformat()
    want = [{'timex': iso, 'type': 'date', 'value': iso}]
    bucket = '%s:%s' % (c, case['layout'])
    results = []
    if case.get('pre') and c == 'en-us':
        # a related query (the same date under a modifier) asked a moment earlier must not influence the plain date
        G.parse(c, case['pre'].format(expr), case['ref'])
    for ref in (case['ref'], case['ref2']):
        got = G.parse(c, q, ref)
        results.append(got)
        ok = (len(got) == 1 and got[0]['type'] == 'datetimeV2.date' and G.covers(got[0], q, pos, expr) and got[0]['values'] == want)
        if not ok:
            vs.append(V('DATE_NOT_EXACT', {'query': q, 'ref': ref, 'expected': want, 'got': got}, bucket='EXACT:' + bucket))
            break
    if not vs and results[0] != results[1]:
        vs.append(V('DEPENDS_ON_REFERENCE', {'query': q, 'refs': [case['ref'], case['ref2']], 'got': results}, bucket='REF:' + bucket))
    import calendar
    nt = (d.day <= 12 and d.day != d.month) or (d.month == 2 and d.day == 29) or d.day == calendar.monthrange(d.year, d.month)[1]
    return R(vs, nontrivial=nt, labels=[c, 'layout:' + case['layout'], 'alone' if case['carrier'] == '{}' else 'carrier'],
             obs={'query': q, 'entities': results[0]}, key=[c, q], evals=len(results))


def cases(culture):
    names = sorted(G.layouts(culture))
    return st.builds(lambda d, l, r1, r2, ci, pre, rel: {'culture': culture, 'date': d.isoformat(), 'layout': l, 'ref': r1,
                                                         'ref2': related_ref(d.isoformat(), rel, r2),
                                                         'carrier': G.DATE_CARRIERS[culture][ci % len(G.DATE_CARRIERS[culture])], 'pre': pre},
                     G.dates(), st.sampled_from(names), G.refs(), G.refs(), st.integers(0, 11),
                     st.sampled_from([None, None, None, 'I left before {}', 'after {} it rained', 'since {}']),
                     st.sampled_from([0, 0, 0, 1, 2, 3, 4]))


def related_ref(date_iso, rel, fallback):
    """a reference datetime that is related to the written date: in the same year, on the same day, the day after (a parser that decides
    "no year was written" by comparing with the reference would show here); None/0 = the independent random reference"""
    d = dt.date.fromisoformat(date_iso)
    if not rel or not 1950 <= d.year <= 2090:
        return fallback
    if rel == 1:
        x = dt.datetime(d.year, 6, 15, 10, 0, 0) if (d.month, d.day) != (6, 15) else dt.datetime(d.year, 1, 2, 10, 0, 0)
    elif rel == 2:
        x = dt.datetime(d.year, d.month, d.day, 12, 0, 0)
    elif rel == 3:
        x = dt.datetime(d.year, d.month, d.day) + dt.timedelta(days=1, hours=8)
    else:
        x = dt.datetime(d.year, 12, 31, 23, 59, 59)
    return x.isoformat() if 1950 <= x.year <= 2090 else fallback


def ordinal_day_forms(years):
    """Deterministic part: the day written as an ordinal word / sign (forms that go through the parsers' number-with-month path) x every month
    x given years x references in another year, in the same year and on the same day"""
    def gen():
        i = 0
        for c in sorted(G.ORDINAL_LAYOUTS):
            for name in sorted(G.ORDINAL_LAYOUTS[c]):
                for y in years:
                    for m in range(1, 13):
                        for day in (1, 2, 14, 21, 28):
                            d = dt.date(y, m, day)
                            if G.ORDINAL_LAYOUTS[c][name](d) is None:
                                continue
                            i += 1
                            yield {'culture': c, 'date': d.isoformat(), 'layout': name, 'ref': '2016-11-07T00:00:00' if y != 2016 else '1999-12-31T23:59:59',
                                   'ref2': related_ref(d.isoformat(), 1 + i % 4, '2087-02-28T08:30:00'),
                                   'carrier': G.DATE_CARRIERS[c][i % len(G.DATE_CARRIERS[c])]}
    return gen


def every_day():
    refs = ['2016-11-07T00:00:00', '1999-12-31T23:59:59', '2087-02-28T08:30:00', '2020-02-29T12:00:00']
    for y in (1900, 1999, 2000, 2016, 2019, 2020, 2024, 2099):
        d = dt.date(y, 1, 1)
        i = 0
        while d.year == y:
            for name in sorted(G.EN_LAYOUTS):
                yield {'culture': 'en-us', 'date': d.isoformat(), 'layout': name, 'ref': refs[i % 4], 'ref2': refs[(i + 1) % 4], 'carrier': '{}'}
                i += 1
            d += dt.timedelta(days=1)


def special_dates(cultures, years):
    """Deterministic part: leap days, month ends/starts and swap-sensitive days of the given years x every layout."""
    import calendar

    def gen():
        refs = ['2016-11-07T00:00:00', '2000-02-29T09:00:00', '2087-12-31T23:59:59', '1950-01-01T00:00:00']
        i = 0
        for c in cultures:
            for y in years:
                days = set()
                for m in range(1, 13):
                    days.add(dt.date(y, m, 1))
                    days.add(dt.date(y, m, calendar.monthrange(y, m)[1]))
                for m, d in ((2, 28), (3, 4), (4, 3), (12, 11), (11, 12), (1, 10), (10, 1), (5, 13), (12, 25)):
                    days.add(dt.date(y, m, d))
                for d in sorted(days):
                    for name in sorted(G.layouts(c)):
                        i += 1
                        yield {'culture': c, 'date': d.isoformat(), 'layout': name, 'ref': refs[i % 4],
                               'ref2': related_ref(d.isoformat(), (i % 3 == 0) and 1 + (i // 3) % 4, refs[(i + 1) % 4]),
                               'carrier': G.DATE_CARRIERS[c][i % len(G.DATE_CARRIERS[c])]}
    return gen


def parts(tier, seed):
    q = tier == 'quick'
    ps = [hyp_part('en-us', lambda: cases('en-us'), run_case, 3000 if q else 60000, min_shard=200)]
    for c in G.DT_CULTURES[1:]:
        ps.append(hyp_part(c, (lambda c=c: cases(c)), run_case, 600 if q else 10000, min_shard=150))
    ps.append(enum_part('special-dates-en', special_dates(['en-us'], [1900, 1996, 2000, 2019, 2020, 2099] if q else range(1900, 2100, 3)), run_case,
                        exhaustive=True))
    ps.append(enum_part('special-dates-other', special_dates(G.DT_CULTURES[1:], [2000, 2019, 2096] if q else [1900, 1999, 2000, 2016, 2019, 2020, 2096, 2099]),
                        run_case, exhaustive=True))
    ps.append(concurrent_part('concurrent-mixed-cultures', lambda: st.one_of([cases(c) for c in ('en-us', 'es-es', 'fr-fr', 'nl-nl', 'zh-cn')]), run_case,
                              200 if q else 4000, min_shard=40))
    ps.append(enum_part('ordinal-day-forms', ordinal_day_forms([2019, 2000] if q else [1950, 1999, 2000, 2016, 2019, 2020, 2024, 2090]), run_case,
                        exhaustive=True))
    if not q:
        ps.append(enum_part('en-every-day-8-years', every_day, run_case, exhaustive=True))
    return ps
