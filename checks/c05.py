"""C05 - every listed unit spelling maps to its canonical unit and keeps the number.

Finite domain, enumerated exhaustively: every prefix/suffix table entry wired into every registered unit model.
Oracle: unit == the table key under which the spelling is listed first (first-wins binding); value == what the culture's
number model returns for the numeral alone (differential against C03's subject); ISO code from the culture's resource table.
Compound currency ('N dollars and M cents'): N + M/ratio in the main unit.
"""
import importlib
from decimal import Decimal

from hypothesis import strategies as st

from lib.engine import R, V, enum_part, hyp_part

ID = 'C05'
RULE = ('every (culture, entity type, prefix|suffix, spelling) entry of the tables wired into the configuration of each registered unit model '
        '(currency, dimension, temperature, age x en, es, es-mx, fr, pt, nl, zh, de, it, ja where registered), each with an integer numeral and, when the spelling itself contains a digit (m2, km3), with that digit as the numeral '
        '(quick) and additionally a decimal numeral and a carrier sentence (thorough); compound currency: every main/fraction pair reachable '
        'through BaseCurrency.CurrencyFractionMapping for en-us with Hypothesis-drawn amounts; every table entry is non-trivial and counted '
        'once; distinct = (culture, type, kind, spelling, numeral, carrier)')
ASSUMPTIONS = ['first-wins binding of duplicate spellings (DictionaryUtility.bind_dictionary) is the documented lookup rule',
               'the number model of the same culture (checked by C03) gives the expected value of the numeral']

CULTURES = ['en-us', 'es-es', 'es-mx', 'fr-fr', 'pt-br', 'de-de', 'it-it', 'nl-nl', 'zh-cn', 'ja-jp']
TYPES = ['currency', 'dimension', 'temperature', 'age']
RES = {'en-us': ('english', 'English'), 'es-es': ('spanish', 'Spanish'), 'es-mx': ('spanish', 'Spanish'), 'fr-fr': ('french', 'French'),
       'pt-br': ('portuguese', 'Portuguese'), 'de-de': ('german', 'German'), 'it-it': ('italian', 'Italian'), 'nl-nl': ('dutch', 'Dutch'),
       'zh-cn': ('chinese', 'Chinese'), 'ja-jp': ('japanese', 'Japanese')}
DECIMAL = {'en-us': '3.5', 'es-mx': '3.5', 'zh-cn': '3.5', 'ja-jp': '3.5', 'es-es': '3,5', 'fr-fr': '3,5', 'pt-br': '3,5', 'de-de': '3,5',
           'it-it': '3,5', 'nl-nl': '3,5'}
CARRIER = {'en-us': 'it was {} in total', 'es-es': 'fue {} en total', 'es-mx': 'fue {} en total', 'fr-fr': 'c\'était {} au total',
           'pt-br': 'foi {} no total', 'de-de': 'es war {} insgesamt', 'it-it': 'era {} in totale', 'nl-nl': 'het was {} in totaal',
           'zh-cn': '总共是 {} 了', 'ja-jp': '合計 {} です'}
_CACHE = {}


def unit_model(culture, typ):
    key = (culture, typ)
    if key not in _CACHE:
        from recognizers_number_with_unit.number_with_unit.number_with_unit_recognizer import NumberWithUnitRecognizer
        r = NumberWithUnitRecognizer(culture)
        try:
            _CACHE[key] = getattr(r, 'get_%s_model' % typ)(culture, False)
        except ValueError:
            _CACHE[key] = None
    return _CACHE[key]


def number_value(culture, numeral):
    key = ('num', culture, numeral)
    if key not in _CACHE:
        from recognizers_number.number.number_recognizer import NumberRecognizer
        try:
            m = NumberRecognizer(culture).get_number_model(culture, False)
        except ValueError:
            m = NumberRecognizer('en-us').get_number_model('en-us', False)
        res = m.parse(numeral)
        _CACHE[key] = res[0].resolution['value'] if len(res) == 1 else None
    return _CACHE[key]


def iso_table(culture):
    key = ('iso', culture)
    if key not in _CACHE:
        mod, cls = RES[culture]
        try:
            m = importlib.import_module('recognizers_number_with_unit.resources.%s_numeric_with_unit' % mod)
            _CACHE[key] = dict(getattr(getattr(m, cls + 'NumericWithUnit'), 'CurrencyNameToIsoCodeMap', {}))
        except ImportError:
            _CACHE[key] = {}
    return _CACHE[key]


def warm(tier):
    table_entries()
    for c in CULTURES:
        number_value(c, '5')
        number_value(c, DECIMAL[c])
        iso_table(c)
    compound_pairs()


def table_entries():
    if 'entries' in _CACHE:
        return _CACHE['entries']
    _CACHE['entries'] = _table_entries()
    return _CACHE['entries']


def _table_entries():
    """[(culture, type, kind, spelling, first_unit, extractor/parser pair index)] from the configuration of every registered model."""
    out = []
    for c in CULTURES:
        for t in TYPES:
            m = unit_model(c, t)
            if m is None:
                continue
            for epi, ep in enumerate(m.extractor_parser):
                cfg = ep.extractor.config
                for kind, tbl in (('suffix', cfg.suffix_list), ('prefix', cfg.prefix_list)):
                    seen = {}
                    for unit, forms in (tbl or {}).items():
                        for f in forms.split('|'):
                            if not f or f.isspace() or f in seen:
                                continue
                            seen[f] = unit
                            out.append((c, t, kind, f, unit, epi))
    return out


def cases_for(numerals, carriers):
    def gen():
        for c, t, kind, f, unit, epi in table_entries():
            shared = sorted({ch for ch in f if ch in '123456789'})
            extra = ['dec'] if (c == 'es-mx' and 'dec' not in numerals) else []     # es-mx shares its classes with es-es: always both marks
            for numeral_kind in list(numerals) + extra + ['shared:' + d for d in shared]:
                for carrier in carriers:
                    yield {'culture': c, 'type': t, 'kind': kind, 'spelling': f, 'unit': unit, 'numeral': numeral_kind, 'carrier': carrier,
                           'ep': epi}
    return gen


def build_query(case):
    c = case['culture']
    num = '5' if case['numeral'] == 'int' else case['numeral'][7:] if case['numeral'].startswith('shared:') else DECIMAL[c]
    cjk = c in ('zh-cn', 'ja-jp')
    f = case['spelling']
    sep = '' if (cjk and not f.isascii()) else ' '
    expr = (num + sep + f) if case['kind'] == 'suffix' else (f + sep + num)
    carrier = '{}' if not case['carrier'] else CARRIER[c]
    q = carrier.format(expr)
    return q, q.index(expr), expr, num


def run_entry(case):
    c, t = case['culture'], case['type']
    q, pos, expr, num = build_query(case)
    m = unit_model(c, t)
    res = m.parse(q)
    got = [{'text': r.text, 'start': r.start, 'end': r.end, 'type': r.type_name, 'resolution': r.resolution} for r in res]
    vs = []
    sig = [c, t, case['kind'], case['spelling']]
    bucket = '%s:%s:%s' % (c, t, case['kind'])
    exp_value = number_value(c, num)
    if exp_value is None:
        raise RuntimeError('number model of %s does not read %r' % (c, num))
    ok = (len(got) == 1 and got[0]['start'] <= pos and got[0]['end'] >= pos + len(expr) - 1 and
          q[got[0]['start']:got[0]['end'] + 1].strip() == expr)
    if not ok:
        vs.append(V('NOT_ONE_ENTITY_OVER_EXPRESSION', {'query': q, 'expression': expr, 'got': got}, sig=sig, bucket='SPAN:' + bucket))
    else:
        r = got[0]['resolution'] or {}
        if r.get('unit') != case['unit']:
            vs.append(V('UNIT_WRONG', {'query': q, 'expected_unit': case['unit'], 'got': got[0]}, sig=sig, bucket='UNIT:' + bucket))
        if r.get('value') != exp_value:
            vs.append(V('VALUE_WRONG', {'query': q, 'expected_value': exp_value, 'got': got[0]}, sig=sig, bucket='VALUE:' + bucket))
        if t == 'currency':
            iso = iso_table(c).get(case['unit'])
            exp_iso = None if (iso is None or iso.startswith('_')) else iso
            if r.get('isoCurrency') != exp_iso:
                vs.append(V('ISO_WRONG', {'query': q, 'expected_iso': exp_iso, 'got': got[0]}, sig=sig, bucket='ISO:' + bucket))
    return R(vs, nontrivial=True, labels=[c, t, case['kind'], case['numeral'], 'carrier' if case['carrier'] else 'alone'],
             obs={'query': q, 'entities': got}, key=[c, t, case['kind'], case['spelling'], case['numeral'], case['carrier']])


# ---- compound currency -------------------------------------------------------------------------------------------------
def compound_pairs():
    """[(main_unit, main_spelling, iso, fraction_unit, fraction_spelling, ratio)] for en-us."""
    from recognizers_number_with_unit.resources.base_currency import BaseCurrency
    from recognizers_number_with_unit.resources.english_numeric_with_unit import EnglishNumericWithUnit as E
    key = 'pairs'
    if key in _CACHE:
        return _CACHE[key]
    name_to_iso = dict(E.CurrencyNameToIsoCodeMap)
    frac_code = dict(E.FractionalUnitNameToCodeMap)
    suffix = dict(E.CurrencySuffixList)
    code_to_frac = {}
    for name, code in frac_code.items():
        code_to_frac.setdefault(code, []).append(name)
    out = []
    for main, iso in sorted(name_to_iso.items()):
        fr = BaseCurrency.CurrencyFractionMapping.get(iso)
        if not fr or main not in suffix:
            continue
        for code in fr.split('|'):
            for fname in code_to_frac.get(code, []):
                ratio = BaseCurrency.CurrencyFractionalRatios.get(fname)
                if not ratio or fname not in suffix:
                    continue
                ms = [s for s in suffix[main].split('|') if s and s.isascii() and s == s.lower() and ' ' in s or s.isalpha()]
                fs = [s for s in suffix[fname].split('|') if s and s.isascii() and s == s.lower() and s.isalpha()]
                if ms and fs:
                    out.append((main, ms, iso, fname, fs, ratio))
    _CACHE[key] = out
    return out


def compound_cases():
    pairs = compound_pairs()
    return st.builds(lambda i, a, b, n, mfrac: {'pair': i, 'ms': a, 'fs': b, 'n': n, 'm': mfrac},
                     st.integers(0, len(pairs) - 1), st.integers(0, 5), st.integers(0, 5), st.integers(1, 999), st.one_of(st.integers(0, 999), st.just(0)))


def run_compound(case):
    pairs = compound_pairs()
    main, ms, iso, fname, fs, ratio = pairs[case['pair'] % len(pairs)]
    msp, fsp = ms[case['ms'] % len(ms)], fs[case['fs'] % len(fs)]
    n = case['n']
    mm = case['m'] % ratio if ratio > 1 else 1      # 0 .. ratio-1 ('5 dollars and 0 cents' is worth 5)
    q = '%d %s and %d %s' % (n, msp, mm, fsp)
    m = unit_model('en-us', 'currency')
    res = m.parse(q)
    got = [{'text': r.text, 'start': r.start, 'end': r.end, 'resolution': r.resolution} for r in res]
    vs = []
    sig = ['compound', main, fname]
    exp = Decimal(n) + Decimal(mm) / Decimal(ratio)
    ok = len(got) == 1 and got[0]['start'] == 0 and got[0]['end'] == len(q) - 1
    if not ok:
        vs.append(V('COMPOUND_NOT_ONE_ENTITY', {'query': q, 'got': got}, sig=sig, bucket='COMPOUND:span'))
    else:
        r = got[0]['resolution'] or {}
        try:
            val = Decimal(r.get('value'))
        except Exception:
            val = None
        if val is None or abs(val - exp) > Decimal('0.0000001') * max(1, abs(exp)):
            vs.append(V('COMPOUND_VALUE', {'query': q, 'expected': str(exp), 'got': got[0]}, sig=sig, bucket='COMPOUND:value'))
        if r.get('unit') != main:
            vs.append(V('COMPOUND_UNIT', {'query': q, 'expected_unit': main, 'got': got[0]}, sig=sig, bucket='COMPOUND:unit'))
        exp_iso = None if iso.startswith('_') else iso
        if r.get('isoCurrency') != exp_iso:
            vs.append(V('COMPOUND_ISO', {'query': q, 'expected_iso': exp_iso, 'got': got[0]}, sig=sig, bucket='COMPOUND:iso'))
    return R(vs, nontrivial=True, labels=['compound', 'ratio:%s' % ratio], obs={'query': q, 'entities': got}, key=q)


PREDICATES = {
    # zh-cn serves Latin-script spellings through an embedded English sub-model whose parser is not the currency parser
    'c05_zh_latin_no_iso': lambda case, v: case.get('culture') == 'zh-cn' and case.get('type') == 'currency' and case.get('ep', 0) > 0,
}


def run_any(case):
    return run_compound(case) if 'pair' in case else run_entry(case)


def parts(tier, seed):
    if tier == 'quick':
        return [enum_part('tables', cases_for(['int'], [False]), run_entry, exhaustive=True),
                hyp_part('compound-currency', compound_cases, run_compound, 600, min_shard=100)]
    return [enum_part('tables', cases_for(['int', 'dec'], [False, True]), run_entry, exhaustive=True),
            hyp_part('compound-currency', compound_cases, run_compound, 20000, min_shard=100)]
