"""C20 - yes/no answers keep their polarity (English boolean model, the only culture with one)."""
import re

from hypothesis import strategies as st

from lib.engine import R, V, enum_part, hyp_part, concurrent_part

ID = 'C20'
RULE = ('alternatives are enumerated from EnglishChoice.TrueRegex / FalseRegex (word alternation + emoji written as single code points); '
        'exhaustive part: every alternative x 4 letter-case variants x 40 fixed surroundings; Hypothesis part: random per-letter case, '
        'blanks/punctuation/filler words around, several blanks inside "not ok", neutral strings from a closed pool, strings with both '
        'polarities; every case under one of the English culture codes en-us, en-gb, en-au, en-in, en-ca, EN-US, en (all are served the English lists); '
        'non-trivial = alternative not at position 0, or mixed/upper case, or both polarities present; distinct = distinct (culture code, query); concurrent part: the same generated cases evaluated 2-4 at a time on simultaneous threads (switch interval 10 us), '
        'cases that are clean alone must stay clean')
ASSUMPTIONS = ['filler words are a static list containing no alternative as a token',
               'the emoji alternatives are those the Python regex can match as single code points (U+1F44C, U+1F44E, U+1F590, U+270B)']

FILLERS = ['well', 'hmm', 'i', 'think', 'so', 'please', 'thanks', 'maybe', 'it', 'is', 'the', 'answer', 'then', 'know', 'nothing', 'okay',
           'yesterday', 'sunny', 'nobody', 'yesss', 'İ']
NEUTRAL_POOL = FILLERS + ['', ' ', '  ', '\t', 'n', 'ye', 'nope2', 'oka', '12', '?', '!', ',', 'true2', 'falsely', 'agreement', 'okey', 'noo',
                          'yessir', 'not', 'not okay', 'notok']
PRE = ['', ' ', '  ', '"', '(', 'well , ', 'hmm ... ', 'i think ', 'then: ', 'İ know ']
POST = ['', ' ', '!', ' !', ',', ')', '"', ' , thanks', ' please', ' .']
SURROUND = [(a, b) for a in PRE for b in POST][:100]


def alternatives():
    """[(text, polarity)] parsed from the resource the model is built from."""
    from recognizers_choice.resources.english_choice import EnglishChoice
    out = []
    for rx, pol in ((EnglishChoice.TrueRegex, True), (EnglishChoice.FalseRegex, False)):
        m = re.match(r'\\b\((.*?)\)\\b\|\((.*?)\)', rx)
        if not m:
            raise RuntimeError('cannot parse alternatives from %r' % rx)
        for w in m.group(1).split('|'):
            out.append((w.replace('\\s+', ' '), pol))
        for e in m.group(2).split('|'):
            e = e.strip()
            mm = re.fullmatch(r'\\u([0-9a-fA-F]{4})', e)
            m8 = re.fullmatch(r'\\u000([0-9a-fA-F]{5})', e)
            if m8:
                out.append((chr(int(m8.group(1), 16)), pol))
            elif mm and not (0xD800 <= int(mm.group(1), 16) <= 0xDFFF):
                out.append((chr(int(mm.group(1), 16)), pol))
    return out


ENGLISH_CODES = ['en-us', 'en-us', 'en-gb', 'en-us', 'en-au', 'EN-US', 'en-in', 'en-ca', 'en']    # every English code is served the English lists


def recognise(q, culture='en-us'):
    from recognizers_choice import recognize_boolean
    return [{'text': r.text, 'start': r.start, 'end': r.end, 'type': r.type_name, 'value': (r.resolution or {}).get('value'),
             'score': (r.resolution or {}).get('score')} for r in recognize_boolean(q, culture)]


def norm(s):
    return re.sub(r'\s+', ' ', s.strip().lower())


def score_ok(g):
    s = g['score']
    return isinstance(s, (int, float)) and not isinstance(s, bool) and 0 <= s <= 1


def run_single(case):
    """one alternative, written out as case['written'], between pre and post."""
    q = case['pre'] + case['written'] + case['post']
    pos = len(case['pre'])
    got = recognise(q, case.get('culture', 'en-us'))
    vs = []
    pol = case['polarity']
    ok = (len(got) == 1 and got[0]['start'] == pos and got[0]['end'] == pos + len(case['written']) - 1 and got[0]['value'] is pol and
          got[0]['type'] == 'boolean' and q[got[0]['start']:got[0]['end'] + 1].lower() == got[0]['text'].lower())
    if not ok:
        kind = 'WRONG_POLARITY' if (len(got) == 1 and got[0]['value'] is not pol) else 'NOT_ONE_ENTITY' if len(got) != 1 else 'WRONG_SPAN'
        vs.append(V(kind, {'query': q, 'alternative': case['alt'], 'expected': {'span': [pos, pos + len(case['written']) - 1], 'value': pol},
                           'got': got}, bucket=kind + (':word' if case['alt'].isascii() else ':emoji')))
    for g in got:
        if not score_ok(g):
            vs.append(V('SCORE_RANGE', {'query': q, 'got': g}, bucket='SCORE'))
    w = case['written']
    return R(vs, nontrivial=pos > 0 or (w != w.lower()), labels=['single', 'pol:%s' % pol, 'case:' + case.get('style', '-')],
             obs={'query': q, 'culture': case.get('culture', 'en-us'), 'entities': got}, key=[case.get('culture', 'en-us'), q])


def run_neutral(case):
    q = case['q']
    got = recognise(q, case.get('culture', 'en-us'))
    vs = []
    if got:
        vs.append(V('NEUTRAL_RECOGNISED', {'query': q, 'got': got}, bucket='NEUTRAL'))
    return R(vs, nontrivial=q.strip() != '', labels=['neutral'], obs={'query': q, 'culture': case.get('culture', 'en-us'), 'entities': got}, key=[case.get('culture', 'en-us'), q])


def run_both(case):
    q = case['q']
    got = recognise(q, case.get('culture', 'en-us'))
    alts = {norm(a): p for a, p in alternatives()}
    vs = []
    if len(got) != 1:
        vs.append(V('NOT_ONE_ENTITY', {'query': q, 'got': got}, bucket='BOTH:count'))
    else:
        g = got[0]
        t = norm(g['text'])
        if t not in alts or alts[t] is not g['value']:
            vs.append(V('WRONG_POLARITY', {'query': q, 'got': g}, bucket='BOTH:polarity'))
        if norm(q[g['start']:g['end'] + 1]) != t:
            vs.append(V('WRONG_SPAN', {'query': q, 'got': g}, bucket='BOTH:span'))
        if not score_ok(g):
            vs.append(V('SCORE_RANGE', {'query': q, 'got': g}, bucket='SCORE'))
    return R(vs, nontrivial=True, labels=['both'], obs={'query': q, 'culture': case.get('culture', 'en-us'), 'entities': got}, key=[case.get('culture', 'en-us'), q])


PREDICATES = {'c20_raised_hand': lambda case, v: case.get('alt') == '\u270b'}


def run_any(case):
    if 'alt' in case:
        return run_single(case)
    return run_both(case) if case.get('both') else run_neutral(case)


def case_variants(w):
    return [('lower', w), ('upper', w.upper()), ('title', w.title()), ('alt', ''.join(c.upper() if i % 2 else c for i, c in enumerate(w)))]


def exhaustive_cases():
    out = []
    for alt, pol in alternatives():
        for style, written in case_variants(alt):
            if written == alt and style != 'lower':
                continue
            for pre, post in SURROUND[:40] if len(alt) > 1 else SURROUND[:40]:
                out.append({'alt': alt, 'polarity': pol, 'written': written, 'pre': pre, 'post': post, 'style': style,
                            'culture': ENGLISH_CODES[len(out) % len(ENGLISH_CODES)]})
    return out


def _tokens_ok(words, alts):
    return all(norm(w) not in alts for w in words)


def random_cases():
    alts = alternatives()
    altset = {a for a, _ in alts}
    fillers = [f for f in FILLERS if f not in altset]
    sep = st.sampled_from([' ', ' ', '  ', ' , ', ' ... ', '! ', ' ('])
    filler_seq = st.lists(st.sampled_from(fillers), max_size=3)

    def glue(words, seps):
        s = ''
        for i, w in enumerate(words):
            s += w + (seps[i % len(seps)] if seps else ' ')
        return s

    def single(ap, mask, pre_words, post_words, seps, inner):
        alt, pol = ap
        written = ''.join(c.upper() if (mask >> (i % 16)) & 1 else c for i, c in enumerate(alt))
        if ' ' in written:
            written = written.replace(' ', ' ' * inner)
        pre = glue(pre_words, seps)
        post = ''.join((seps[(i + 1) % len(seps)] if seps else ' ') + w for i, w in enumerate(post_words))
        return {'alt': alt, 'polarity': pol, 'written': written, 'pre': pre, 'post': post, 'style': 'random'}
    singles = st.builds(single, st.sampled_from(alts), st.integers(0, 65535), filler_seq, filler_seq, st.lists(sep, min_size=1, max_size=3),
                        st.integers(1, 3))
    neutral = st.lists(st.sampled_from([n for n in NEUTRAL_POOL if n not in altset]), max_size=6).map(lambda ws: {'q': ' '.join(ws)}).filter(
        lambda c: 'not ok' not in norm(c['q']).replace('not okay', 'x').replace('not okey', 'x'))
    trues = [a for a, p in alts if p]
    falses = [a for a, p in alts if not p]

    def both(t, f, order, mid, pre_words):
        a, b = (t, f) if order else (f, t)
        return {'both': True, 'q': glue(pre_words, [' ']) + a + ' ' + ' '.join(mid + [b])}
    boths = st.builds(both, st.sampled_from(trues), st.sampled_from(falses), st.booleans(), st.lists(st.sampled_from(fillers), max_size=2),
                      filler_seq)
    return st.builds(lambda c, cu: dict(c, culture=cu), st.one_of(singles, singles, neutral, boths), st.sampled_from(ENGLISH_CODES))


def parts(tier, seed):
    return [
        enum_part('alternatives-x-surroundings', exhaustive_cases, run_single, exhaustive=True),
        hyp_part('random', random_cases, run_any, 2000 if tier == 'quick' else 100000, min_shard=100),
        concurrent_part('concurrent', random_cases, run_any, 400 if tier == 'quick' else 10000, min_shard=50),
    ]
