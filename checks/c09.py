"""C09 - dates without a year resolve to the nearest past and next future occurrence (English)."""
import datetime as dt

from hypothesis import strategies as st

from gens import dt as G
from lib.engine import R, V, enum_part, hyp_part

ID = 'C09'
RULE = ('English: (month, day) over all 366 valid pairs x layouts (Month d, m/d, d Month, Month dth) and the seven weekday names x reference datetimes '
        '1950-2090, with the reference FORCED to the interesting relations (the stated day itself, the day before, the day after, Feb 28 / Feb 29 '
        '/ Mar 1 of leap and non-leap years, midnight and non-midnight times), half of the cases preceded by the same text under the sibling reference of the same day; thorough enumerates all 366 pairs x a reference grid; '
        'other cultures (es, fr, pt, it, de, nl, zh): weekday names and month-day layouts typed into the harness, references forced the same way; non-trivial = stated day within one day of the reference date, or 29 February; distinct = (query, reference)')
ASSUMPTIONS = ['past = latest occurrence strictly before the reference DATE, future = earliest occurrence on or after it (10-line search over years)']
TD = dt.timedelta
LAYOUTS = {
    'Month d': lambda m, d: '%s %d' % (G.MONTHS['en'][m - 1], d),
    'm/d': lambda m, d: '%d/%d' % (m, d),
    'd Month': lambda m, d: '%d %s' % (d, G.MONTHS['en'][m - 1]),
    'Month dth': lambda m, d: '%s %d%s' % (G.MONTHS['en'][m - 1], d, G.ordinal_suffix(d)),
}
CARRIERS = ['{}', '{}', 'I will be back on {}', 'the deadline is {} for all teams', '{}.', 'it is on {}, room 4.']


def occurrences(m, d, ref_date):
    past = fut = None
    for y in range(ref_date.year, ref_date.year - 9, -1):
        try:
            c = dt.date(y, m, d)
        except ValueError:
            continue
        if c < ref_date:
            past = c
            break
    for y in range(ref_date.year, ref_date.year + 9):
        try:
            c = dt.date(y, m, d)
        except ValueError:
            continue
        if c >= ref_date:
            fut = c
            break
    return past, fut


def build(case):
    if case['kind'] == 'md':
        expr = LAYOUTS[case['layout']](case['m'], case['d'])
    else:
        expr = G.EN_WEEKDAYS[case['wd']] if case.get('cap') else G.EN_WEEKDAYS[case['wd']].lower()
    q = case['carrier'].format(expr)
    return q, q.index(expr), expr


def query_of(case):
    q, _, _ = build(case)
    return 'en-us', q, case['ref']


def same_day_nonmidnight(case, v=None):
    """known finding: stated month-day equals the reference's month-day and the reference time is after 00:00:00"""
    if case.get('kind') != 'md':
        return False
    ref = dt.datetime.fromisoformat(case['ref'])
    return (case['m'], case['d']) == (ref.month, ref.day) and ref.time() != dt.time(0, 0, 0)


PREDICATES = {'c09_same_day_nonmidnight': same_day_nonmidnight}


def run_case(case):
    q, pos, expr = build(case)
    ref = dt.datetime.fromisoformat(case['ref'])
    if case.get('pre_ref'):
        # the same text asked a moment earlier under another reference must not influence this answer
        G.parse('en-us', q, case['pre_ref'])
    got = G.parse('en-us', q, case['ref'])
    vs = []
    if case['kind'] == 'md':
        past, fut = occurrences(case['m'], case['d'], ref.date())
        tx = 'XXXX-%02d-%02d' % (case['m'], case['d'])
        near = abs((dt.date(2000, case['m'], case['d']) - dt.date(2000, ref.month, ref.day)).days) <= 1 if not (
            (case['m'], case['d']) == (2, 29) or (ref.month, ref.day) == (2, 29)) else True
        bucket = 'month-day' + (':feb29' if (case['m'], case['d']) == (2, 29) else '')
    else:
        fut = ref.date() + TD((case['wd'] - ref.weekday()) % 7)
        past = fut - TD(7)
        tx = 'XXXX-WXX-%d' % (case['wd'] + 1)
        near = (case['wd'] - ref.weekday()) % 7 in (0, 1, 6)
        bucket = 'weekday'
    want = [{'timex': tx, 'type': 'date', 'value': past.isoformat()}, {'timex': tx, 'type': 'date', 'value': fut.isoformat()}]
    ok = len(got) == 1 and G.covers(got[0], q, pos, expr) and got[0]['type'] == 'datetimeV2.date' and got[0]['values'] == want
    if not ok:
        vs.append(V('CANDIDATES_WRONG', {'query': q, 'ref': case['ref'], 'expected': want, 'got': got}, bucket=bucket))
    return R(vs, nontrivial=near, labels=[bucket, 'ref:midnight' if ref.time() == dt.time(0, 0) else 'ref:daytime'],
             obs={'query': q, 'ref': case['ref'], 'entities': got}, key=[q, case['ref'], case.get('pre_ref')], evals=2 if case.get('pre_ref') else 1)


# ---- other cultures (weekday names and month-day layouts typed into the harness) ---------------------------------------------
WEEKDAYS = {
    'es-es': ['lunes', 'martes', 'miércoles', 'jueves', 'viernes', 'sábado', 'domingo'],
    'fr-fr': ['lundi', 'mardi', 'mercredi', 'jeudi', 'vendredi', 'samedi', 'dimanche'],
    'pt-br': ['segunda-feira', 'terça-feira', 'quarta-feira', 'quinta-feira', 'sexta-feira', 'sábado', 'domingo'],
    'it-it': ['lunedì', 'martedì', 'mercoledì', 'giovedì', 'venerdì', 'sabato', 'domenica'],
    'de-de': ['Montag', 'Dienstag', 'Mittwoch', 'Donnerstag', 'Freitag', 'Samstag', 'Sonntag'],
    'nl-nl': ['maandag', 'dinsdag', 'woensdag', 'donderdag', 'vrijdag', 'zaterdag', 'zondag'],
    'zh-cn': ['星期一', '星期二', '星期三', '星期四', '星期五', '星期六', '星期日'],
}
MD_LAYOUTS = {
    'es-es': {'d de mes': lambda m, d: '%d de %s' % (d, G.MONTHS['es'][m - 1]), 'd/m': lambda m, d: '%d/%d' % (d, m), 'el d-m': lambda m, d: '%d-%d' % (d, m)},
    'fr-fr': {'d mois': lambda m, d: '%d %s' % (d, G.MONTHS['fr'][m - 1]), 'd/m': lambda m, d: '%d/%d' % (d, m)},
    'pt-br': {'d de mes': lambda m, d: '%d de %s' % (d, G.MONTHS['pt'][m - 1]), 'd/m': lambda m, d: '%d/%d' % (d, m)},
    'it-it': {'d mese': lambda m, d: '%d %s' % (d, G.MONTHS['it'][m - 1]), 'd/m': lambda m, d: '%d/%d' % (d, m)},
    'de-de': {'d. Monat': lambda m, d: '%d. %s' % (d, G.MONTHS['de'][m - 1]), 'd.m.': lambda m, d: '%d.%d.' % (d, m)},
    'nl-nl': {'d maand': lambda m, d: '%d %s' % (d, G.MONTHS['nl'][m - 1]), 'd/m': lambda m, d: '%d/%d' % (d, m)},
    'zh-cn': {'m月d日': lambda m, d: '%d月%d日' % (m, d)},
}
OTHER_CARRIERS = {'es-es': ['{}', 'volveré el {}'], 'fr-fr': ['{}', 'je reviens {}'], 'pt-br': ['{}', 'volto {}'], 'it-it': ['{}', 'torno {}'],
                  'de-de': ['{}', 'ich komme {} zurück'], 'nl-nl': ['{}', 'ik kom {} terug'], 'zh-cn': ['{}', '我{}回来']}


def run_other(case):
    c = case['culture']
    if case['kind'] == 'md':
        expr = MD_LAYOUTS[c][case['layout']](case['m'], case['d'])
    else:
        expr = WEEKDAYS[c][case['wd']]
    q = case['carrier'].format(expr)
    pos = q.index(expr)
    ref = dt.datetime.fromisoformat(case['ref'])
    got = G.parse(c, q, case['ref'])
    if case['kind'] == 'md':
        past, fut = occurrences(case['m'], case['d'], ref.date())
        tx = 'XXXX-%02d-%02d' % (case['m'], case['d'])
        near = abs((dt.date(2000, case['m'], case['d']) - dt.date(2000, ref.month, ref.day)).days) <= 1 if (ref.month, ref.day) != (2, 29) else True
    else:
        fut = ref.date() + TD((case['wd'] - ref.weekday()) % 7)
        past = fut - TD(7)
        tx = 'XXXX-WXX-%d' % (case['wd'] + 1)
        near = (case['wd'] - ref.weekday()) % 7 in (0, 1, 6)
    want = [{'timex': tx, 'type': 'date', 'value': past.isoformat()}, {'timex': tx, 'type': 'date', 'value': fut.isoformat()}]
    vs = []
    ok = len(got) == 1 and G.covers(got[0], q, pos, expr) and got[0]['type'] == 'datetimeV2.date' and got[0]['values'] == want
    if not ok:
        vs.append(V('CANDIDATES_WRONG', {'culture': c, 'query': q, 'ref': case['ref'], 'expected': want, 'got': got}, bucket='%s:%s' % (c, case['kind'])))
    return R(vs, nontrivial=near, labels=['culture:' + c, case['kind']], obs={'query': q, 'ref': case['ref'], 'entities': got}, key=[c, q, case['ref']])


def other_cases():
    pairs = all_pairs()

    def mk(c, kind, p, li, wd, r, rel, ci):
        ref = dt.datetime.fromisoformat(r)
        if kind == 'md':
            if rel is not None:
                try:
                    base = dt.date(ref.year, p[0], p[1])
                except ValueError:
                    base = dt.date(ref.year, 3, 1)
                x = base + TD(rel)
                ref = ref.replace(year=x.year, month=x.month, day=x.day)
            names = sorted(MD_LAYOUTS[c])
            layout = names[li % len(names)]
            carrier = OTHER_CARRIERS[c][ci % 2]
            if layout == 'el d-m':
                carrier = 'volveré el {}'
            return {'culture': c, 'kind': 'md', 'm': p[0], 'd': p[1], 'layout': layout, 'ref': ref.isoformat(), 'carrier': carrier}
        if rel is not None:
            ref = ref + TD(days=(wd - ref.weekday()) % 7 + rel)      # force the reference onto / next to the named weekday
        return {'culture': c, 'kind': 'wd', 'wd': wd, 'ref': ref.isoformat(), 'carrier': OTHER_CARRIERS[c][ci % 2]}
    return st.builds(mk, st.sampled_from(sorted(WEEKDAYS)), st.sampled_from(['md', 'md', 'wd']),
                     st.one_of(st.sampled_from(pairs), st.sampled_from([(2, 29), (2, 28), (3, 1), (12, 31), (1, 1), (10, 5), (5, 10)])), st.integers(0, 5),
                     st.integers(0, 6), G.refs(), st.sampled_from([None, None, -1, 0, 0, 1]), st.integers(0, 3))


def same_day_nonmidnight_other(case, v=None):
    if case.get('culture') is None or case.get('kind') != 'md':
        return False
    ref = dt.datetime.fromisoformat(case['ref'])
    return (case['m'], case['d']) == (ref.month, ref.day) and ref.time() != dt.time(0, 0, 0)




def all_pairs():
    out = []
    for m in range(1, 13):
        for d in range(1, 32):
            try:
                dt.date(2000, m, d)
                out.append((m, d))
            except ValueError:
                pass
    return out


def forced_refs(m, d, year, times):
    """references around the stated day in the given year"""
    out = []
    try:
        base = dt.date(year, m, d)
    except ValueError:
        base = dt.date(year, 3, 1)
    for off in (-1, 0, 1):
        for t in times:
            x = base + TD(off)
            out.append(dt.datetime(x.year, x.month, x.day, *t).isoformat())
    x = base
    out.append(dt.datetime(x.year, x.month, x.day, 0, 0, 0, 250000).isoformat())
    return out


def forced_enum(quick):
    def gen():
        pairs = all_pairs()
        if quick:
            keep = {(1, 1), (2, 28), (2, 29), (3, 1), (12, 31), (7, 4), (10, 31), (11, 12), (12, 11), (6, 30), (5, 13)}
            pairs = [p for i, p in enumerate(pairs) if p in keep or i % 12 == 0]
        years = (2019, 2020) if quick else (1999, 2000, 2019, 2020, 2024, 2087)
        times = ((0, 0, 0), (13, 45, 10)) if quick else ((0, 0, 0), (0, 0, 1), (13, 45, 10), (23, 59, 59))
        i = 0
        for (m, d) in pairs:
            for y in years:
                for r in forced_refs(m, d, y, times):
                    for layout in (sorted(LAYOUTS) if (m, d) in ((2, 29), (1, 1), (12, 31)) or not quick else [sorted(LAYOUTS)[i % 4]]):
                        i += 1
                        rr = dt.datetime.fromisoformat(r)
                        sibling = rr.replace(hour=15, minute=30, second=0, microsecond=0) if rr.time() == dt.time(0, 0) else rr.replace(
                            hour=0, minute=0, second=0, microsecond=0)
                        yield {'kind': 'md', 'm': m, 'd': d, 'layout': layout, 'ref': r, 'carrier': CARRIERS[i % 6],
                               'pre_ref': sibling.isoformat() if i % 2 else None}
        base = dt.datetime(2019, 12, 26, 0, 0, 0)
        for off in range(14):
            for t in ((0, 0, 0, 0), (18, 30, 0, 0), (9, 15, 30, 654321)):
                r = (base + TD(days=off)).replace(hour=t[0], minute=t[1], second=t[2], microsecond=t[3]).isoformat()
                for wd in range(7):
                    i += 1
                    yield {'kind': 'wd', 'wd': wd, 'cap': bool(i % 2), 'ref': r, 'carrier': CARRIERS[i % 6]}
    return gen


def cases():
    pairs = all_pairs()

    def md(p, layout, r, rel, ci):
        ref = dt.datetime.fromisoformat(r)
        if rel is not None:
            # force the reference next to the stated day (same year as the drawn reference)
            try:
                base = dt.date(ref.year, p[0], p[1])
            except ValueError:
                base = dt.date(ref.year, 3, 1)
            x = base + TD(rel)
            ref = ref.replace(year=x.year, month=x.month, day=x.day)
        pre = None
        if ci % 2:
            pre = (ref.replace(hour=15, minute=30, second=0, microsecond=0) if ref.time() == dt.time(0, 0) else
                   ref.replace(hour=0, minute=0, second=0, microsecond=0)).isoformat()
        return {'kind': 'md', 'm': p[0], 'd': p[1], 'layout': layout, 'ref': ref.isoformat(), 'carrier': CARRIERS[ci], 'pre_ref': pre}
    mds = st.builds(md, st.one_of(st.sampled_from(pairs), st.sampled_from([(2, 29), (2, 28), (3, 1), (12, 31), (1, 1)])), st.sampled_from(sorted(LAYOUTS)),
                    G.refs(), st.sampled_from([None, None, -1, 0, 0, 1]), st.integers(0, 5))
    wds = st.builds(lambda w, cap, r, ci: {'kind': 'wd', 'wd': w, 'cap': cap, 'ref': r, 'carrier': CARRIERS[ci]}, st.integers(0, 6), st.booleans(),
                    G.refs(), st.integers(0, 5))
    return st.one_of(mds, mds, wds)


def parts(tier, seed):
    q = tier == 'quick'
    return [
        enum_part('forced-relations', forced_enum(q), run_case, exhaustive=True),
        hyp_part('random', cases, run_case, 3000 if q else 150000, min_shard=250),
        hyp_part('other-cultures', other_cases, run_other, 2500 if q else 70000, min_shard=250),
    ]
