"""C19 - the Python port agrees with the cross-platform Specs wherever it claims support.

Finite domain enumerated with the repository's own parameterisation (Python/tests/runner.py + test_runner_*.py) and the
repository's own comparison code; the Specs are the oracle.  Executed with pytest/xdist in a subprocess from
<repo>/Python so that ../Specs resolves; a small plugin records per-case outcomes.
"""
import glob
import json
import os
import subprocess
import sys

from lib import env
from lib.engine import R, V, custom_part

ID = 'C19'
RULE = ('every Specs/**/*.json case not marked NotSupported/NotSupportedByDesign for Python, as parameterised by the repository\'s '
        'own test runners (model, extractor, parser, merged-parser level, options from the file names); both tiers run all runners; the cases are '
        'run a second time with every test body on a fresh worker thread (quick: model-level runners, thorough: all), since the specified '
        'result may not depend on the calling thread; '
        'non-trivial = executed case that expects at least one entity; distinct = (pytest node id, thread mode)')
ASSUMPTIONS = ['the repository\'s test runners (Python/tests) are the normative reading of "returns exactly the specified entities"',
               'pytest 9 / xdist as installed in /venv']

QUICK = ['tests/test_runner_number.py', 'tests/test_runner_number_with_unit.py', 'tests/test_runner_sequence.py',
         'tests/test_runner_choice.py', 'tests/test_runner_datetime.py::test_datetime_model']
FULL = ['tests/test_runner_number.py', 'tests/test_runner_number_with_unit.py', 'tests/test_runner_sequence.py',
        'tests/test_runner_choice.py', 'tests/test_runner_datetime.py']


def _pytest(args, out_prefix, nproc=16, on_thread=False):
    pydir = os.path.join(env.REPO, 'Python')
    envv = dict(os.environ)
    envv['PYTHONPATH'] = os.pathsep.join([os.path.join(env.VERIF, 'pytest_plugins')] + env.pythonpath())
    envv['PYTHONDONTWRITEBYTECODE'] = '1'
    envv['VRF_C19_OUT'] = out_prefix
    if on_thread:
        envv['VRF_C19_THREAD'] = '1'
    else:
        envv.pop('VRF_C19_THREAD', None)
    cmd = [sys.executable, '-W', 'ignore', '-m', 'pytest', '-p', 'no:cacheprovider', '-p', 'vrf_c19_plugin', '-q', '--no-header',
           '-o', 'addopts=', '--tb=no', '-x' if False else '--maxfail=100000']
    if nproc > 1:
        cmd += ['-n', str(nproc)]
    p = subprocess.run(cmd + args, cwd=pydir, env=envv, stdout=subprocess.PIPE, stderr=subprocess.STDOUT, text=True)
    recs = []
    for f in glob.glob(out_prefix + '.*'):
        with open(f, encoding='utf-8') as fh:
            for line in fh:
                recs.append(json.loads(line))
        os.unlink(f)
    return p, recs


def run_on_thread(ctx):
    return run(ctx, on_thread=True)


def run(ctx, on_thread=False):
    out_prefix = os.path.join(env.VERIF, '.work', 'C19-out-%s%d' % ('t' if on_thread else '', os.getpid()))
    os.makedirs(os.path.dirname(out_prefix), exist_ok=True)
    # both tiers run the whole corpus: a regression confined to one level (extractor / parser / merged parser) or to one options-specific
    # spec file must not wait for the thorough tier
    p, recs = _pytest(FULL if not on_thread or ctx.tier != 'quick' else QUICK, out_prefix, on_thread=on_thread)
    tail = '\n'.join(p.stdout.strip().splitlines()[-15:])
    if p.returncode not in (0, 1) or ' error' in tail.splitlines()[-1] or not recs:
        raise env.HarnessError('pytest run failed (rc=%s):\n%s' % (p.returncode, tail))
    for rec in recs:
        if rec['outcome'] == 'skipped':
            ctx.stats.labels['skipped_not_supported'] = ctx.stats.labels.get('skipped_not_supported', 0) + 1
            continue
        case = {'nodeid': rec['nodeid'], 'on_thread': on_thread}

        def fn(case, rec=rec):
            vs = []
            if rec['outcome'] != 'passed':
                vs.append(V('SPEC_MISMATCH', {'nodeid': rec['nodeid'], 'input': rec.get('input'), 'culture': rec.get('culture'),
                                              'model': rec.get('model'), 'report': rec.get('longrepr')},
                            sig=rec['nodeid'], bucket='SPEC%s:%s:%s' % ('@thread' if on_thread else '', rec['nodeid'].split('::')[0], rec.get('culture'))))
            runner = rec['nodeid'].split('::')[0].replace('tests/test_runner_', '').replace('.py', '')
            return R(vs, nontrivial=rec['nontrivial'], labels=['runner:' + runner, 'culture:%s' % rec.get('culture'), 'worker-thread' if on_thread else 'main-thread'],
                     obs={'input': rec.get('input'), 'outcome': rec['outcome']}, key=[rec['nodeid'], on_thread])
        new, r = ctx.process(case, fn=fn)
        for v in new:
            if ctx.stats.vcount.get(v.bucket, 0) < 2:
                ctx.add_violation(case, v, r.obs)
            else:
                ctx.stats.vcount[v.bucket] += 1
    ctx.stats.extra['pytest_summary'] = tail.splitlines()[-1]


def replay(case):
    out_prefix = os.path.join(env.VERIF, '.work', 'C19-replay-%d' % os.getpid())
    os.makedirs(os.path.dirname(out_prefix), exist_ok=True)
    p, recs = _pytest([case['nodeid']], out_prefix, nproc=1, on_thread=bool(case.get('on_thread')))
    recs = [r for r in recs if r['nodeid'] == case['nodeid']]
    if not recs:
        raise env.HarnessError('node %s was not executed:\n%s' % (case['nodeid'], p.stdout[-800:]))
    rec = recs[0]
    vs = []
    if rec['outcome'] == 'failed':
        vs.append(V('SPEC_MISMATCH', {'nodeid': rec['nodeid'], 'report': rec.get('longrepr')}, sig=rec['nodeid']))
    return R(vs, nontrivial=True, obs={'outcome': rec['outcome']})


def parts(tier, seed):
    return [custom_part('spec-runners', run, exhaustive=True, replay=replay),
            custom_part('spec-runners-on-a-worker-thread', run_on_thread, exhaustive=True, replay=replay)]
