#!/venv/bin/python
"""Coverage-guided tier (atheris/libFuzzer): the fuzzer's bytes drive the SAME Hypothesis strategies and the SAME oracle as the
property-based parts, through `test.hypothesis.fuzz_one_input`, with the packages under test instrumented for coverage.

usage: fuzz_target.py <c14|c16> <stats-file> [libFuzzer args...]
A violation not matched by known_findings.json raises -> libFuzzer stores the input as crash-* and stops.
`atexit` does not run under libFuzzer, so counters are flushed to <stats-file> every 2000 executions."""
import json
import os
import sys

VERIF = os.path.dirname(os.path.dirname(os.path.abspath(__file__)))
sys.path.insert(0, VERIF)
sys.path.append(os.path.join(VERIF, '.deps'))
which, stats_path = sys.argv[1], sys.argv[2]
import atheris  # noqa: E402

from lib import env  # noqa: E402
env.bootstrap(import_all=False)
with atheris.instrument_imports(include=['datatypes_timex_expression', 'recognizers_text']):
    import datatypes_timex_expression  # noqa: F401
    import recognizers_text.matcher.string_matcher  # noqa: F401
    import recognizers_text.matcher.number_with_unit_tokenizer  # noqa: F401
env.check_imports(['datatypes_timex_expression', 'recognizers_text'])

from hypothesis import given, settings, HealthCheck  # noqa: E402
from hypothesis import strategies as st  # noqa: E402
from lib import engine  # noqa: E402

if which == 'c14':
    from checks import c14 as mod
    strategy = st.one_of(mod.timex_cases(), mod.ctor_cases())
else:
    from checks import c16 as mod
    strategy = st.one_of(mod.tok_cases(), mod.match_cases())
findings = engine.Findings(mod.ID, getattr(mod, 'PREDICATES', {}))
STATS = {'executions': 0, 'valid_cases': 0, 'nontrivial': set(), 'known': 0, 'violation': None}


def flush():
    out = dict(STATS, nontrivial=len(STATS['nontrivial']), nontrivial_hashes=sorted(STATS['nontrivial']))
    with open(stats_path + '.tmp', 'w', encoding='utf-8') as f:
        json.dump(out, f, ensure_ascii=False, default=str)
    os.replace(stats_path + '.tmp', stats_path)


@settings(database=None, deadline=None, suppress_health_check=list(HealthCheck))
@given(strategy)
def prop(case):
    STATS['valid_cases'] += 1
    r = mod.run_any(case)
    if r.nontrivial:
        STATS['nontrivial'].add(engine.h64(r.key if r.key is not None else case))
    for v in r.violations:
        if findings.match(case, v):
            STATS['known'] += 1
            continue
        STATS['violation'] = {'case': case, 'violation': v.to_json()}
        flush()
        raise AssertionError(v.kind)


def one_input(data):
    STATS['executions'] += 1
    if STATS['executions'] % 2000 == 0:
        flush()
    prop.hypothesis.fuzz_one_input(data)


if len(sys.argv) > 3 and sys.argv[3] == '--replay':
    with open(sys.argv[4], 'rb') as f:
        data = f.read()
    try:
        one_input(data)
    except AssertionError:
        pass
    flush()
    sys.exit(0)
atheris.Setup([sys.argv[0]] + sys.argv[3:], one_input)
atheris.Fuzz()
