"""C14 - TIMEX strings survive parsing and formatting unchanged.

Generator: a grammar mirroring TimexRegex, written as Hypothesis strategies over *structured* cases:
each case carries the TIMEX string `s`, the field values a correct parser must extract (`fields`,
derived from the generator's own structure, not from the code) and whether `s` is canonical.
Oracle: (1) fields of Timex(s) == expected fields; (2) out = Timex(s).timex_value() parses to the same
fields; (3) formatting is idempotent; (4) canonical s -> out == s; constructors from_date /
from_date_time / from_time give the canonical TIMEX computed with str formatting of the stdlib value.
"""
import datetime as dt
from decimal import Decimal

from hypothesis import strategies as st

from lib.engine import R, V, enum_part, hyp_part

ID = 'C14'
RULE = ('cases are TIMEX strings drawn from a grammar mirroring TimexRegex (structured strategies) plus datetimes '
        'for the from_* constructors; exhaustive sub-part: every week-of-month/weekday/part-of-day/season combination; '
        'histories: 2-5 spellings of one duration amount (2.5, 2.50, 02.5, number assigned to the field) formatted one after the other; '
        'non-trivial = string with >= 2 syntactic components (e.g. date+time, month+week, year+season) or a fractional '
        'duration amount; distinct = distinct TIMEX string / constructor argument')
ASSUMPTIONS = ['field expectations come from the generator structure (typed into the harness from the TIMEX grammar)']

FIELDS = ['now', 'years', 'months', 'weeks', 'days', 'hours', 'minutes', 'seconds', 'year', 'month', 'day_of_month',
          'day_of_week', 'season', 'week_of_year', 'weekend', 'week_of_month', 'part_of_day', 'hour', 'minute', 'second']


def fields_of(t):
    out = {}
    for f in FIELDS:
        v = getattr(t, f)
        if isinstance(v, Decimal):
            v = _dec(str(v))
        out[f] = v
    return out


def _dec(s):
    return format(Decimal(s).normalize(), 'f')


def expected_fields(**kw):
    return kw


def full_fields(kw):
    base = {f: None for f in FIELDS}
    base['now'] = False
    base['weekend'] = False
    base.update(kw)
    return base


# ---- strategies ----------------------------------------------------------------------------------
def year_s():
    return st.one_of(st.integers(1, 9999), st.sampled_from([1, 9, 10, 99, 100, 999, 1000, 1900, 1999, 2000, 2024, 9999]))


def _d2(n):
    return '%02d' % n


def date_parts():
    def full(y, m, d):
        return ('%04d-%02d-%02d' % (y, m, d), dict(year=y, month=m, day_of_month=d), 3)

    def openyear(m, d):
        return ('XXXX-%02d-%02d' % (m, d), dict(month=m, day_of_month=d), 2)

    def weekday(w):
        return ('XXXX-WXX-%d' % w, dict(day_of_week=w), 1)
    return st.one_of(
        st.builds(full, year_s(), st.integers(1, 12), st.integers(1, 31)),
        st.builds(openyear, st.integers(1, 12), st.integers(1, 31)),
        st.builds(weekday, st.integers(1, 7)))


def range_parts():
    seasons = st.sampled_from(['SP', 'SU', 'FA', 'WI'])
    return st.one_of(
        st.builds(lambda y: ('%04d' % y, dict(year=y), 1), year_s()),
        st.builds(lambda y, m: ('%04d-%02d' % (y, m), dict(year=y, month=m), 2), year_s(), st.integers(1, 12)),
        st.builds(lambda s: (s, dict(season=s), 1), seasons),
        st.builds(lambda y, s: ('%04d-%s' % (y, s), dict(year=y, season=s), 2), year_s(), seasons),
        st.builds(lambda y, w: ('%04d-W%02d' % (y, w), dict(year=y, week_of_year=w), 2), year_s(), st.integers(1, 53)),
        st.builds(lambda y, w: ('%04d-W%02d-WE' % (y, w), dict(year=y, week_of_year=w, weekend=True), 3), year_s(),
                  st.integers(1, 53)),
        st.builds(lambda m: ('XXXX-%02d' % m, dict(month=m), 1), st.integers(1, 12)),
        st.builds(lambda m, w: ('XXXX-%02d-W%02d' % (m, w), dict(month=m, week_of_month=w), 2), st.integers(1, 12),
                  st.integers(1, 5)),
        st.builds(lambda m, w, d: ('XXXX-%02d-WXX-%d-%d' % (m, w, d), dict(month=m, week_of_month=w, day_of_week=d), 3),
                  st.integers(1, 12), st.integers(1, 5), st.integers(1, 7)))


def time_parts():
    """(string, fields, canonical?)"""
    def clock(h, m, s, style):
        f = dict(hour=h, minute=m, second=s)
        if style == 0:          # canonical: drop zero seconds, then zero minutes
            if s:
                return ('T%02d:%02d:%02d' % (h, m, s), f, True)
            if m:
                return ('T%02d:%02d' % (h, m), f, True)
            return ('T%02d' % h, f, True)
        if style == 1:          # always full
            return ('T%02d:%02d:%02d' % (h, m, s), f, bool(s))
        # hh:mm with seconds dropped from the case
        f = dict(hour=h, minute=m, second=0)
        return ('T%02d:%02d' % (h, m), f, bool(m))
    hours = st.one_of(st.integers(0, 23), st.sampled_from([0, 12, 23]))
    mins = st.one_of(st.integers(0, 59), st.sampled_from([0, 59]))
    clocks = st.builds(clock, hours, mins, mins, st.integers(0, 2))
    pods = st.builds(lambda p: ('T' + p, dict(part_of_day=p), True), st.sampled_from(['DT', 'NI', 'MO', 'AF', 'EV']))
    return clocks, pods


def amounts():
    """(text, canonical?) - integer and fractional amounts, zero included (known finding class)."""
    ints = st.one_of(st.integers(1, 5000), st.integers(0, 10 ** 9), st.sampled_from([0, 1, 10, 60, 100]))
    canon_int = st.builds(lambda n: (str(n), True), ints)
    frac_digits = st.text('0123456789', min_size=1, max_size=6)
    canon_frac = st.builds(lambda n, f: ('%d.%s' % (n, f), not f.endswith('0')), st.integers(0, 5000), frac_digits)
    odd = st.one_of(
        st.builds(lambda n: ('0' + str(n), False), ints),
        st.builds(lambda f: ('.' + f, False), frac_digits))
    return st.one_of(canon_int, canon_int, canon_frac, odd)


DATE_UNITS = {'Y': 'years', 'M': 'months', 'W': 'weeks', 'D': 'days'}
TIME_UNITS = {'H': 'hours', 'M': 'minutes', 'S': 'seconds'}


def durations():
    def mk(a, kind, u):
        text, canonical = a
        if kind == 'date':
            return {'form': 'duration', 's': 'P%s%s' % (text, u), 'fields': expected_fields(**{DATE_UNITS[u]: _dec(text)}),
                    'canonical': canonical, 'components': 1, 'amount': text}
        return {'form': 'duration', 's': 'PT%s%s' % (text, u), 'fields': expected_fields(**{TIME_UNITS[u]: _dec(text)}),
                'canonical': canonical, 'components': 1, 'amount': text}
    return st.one_of(st.builds(mk, amounts(), st.just('date'), st.sampled_from('YMWD')),
                     st.builds(mk, amounts(), st.just('time'), st.sampled_from('HMS')))


def timex_cases():
    clocks, pods = time_parts()

    def plain(p, form):
        s, f, comps = p
        return {'form': form, 's': s, 'fields': expected_fields(**f), 'canonical': True, 'components': comps}

    def time_only(t, form):
        s, f, canonical = t
        return {'form': form, 's': s, 'fields': expected_fields(**f), 'canonical': canonical, 'components': 1}

    def combo(d, t):
        ds, df, comps = d
        ts, tf, canonical = t
        f = dict(df)
        f.update(tf)
        return {'form': 'date+time', 's': ds + ts, 'fields': expected_fields(**f), 'canonical': canonical,
                'components': comps + 1}
    return st.one_of(
        st.builds(plain, date_parts(), st.just('date')),
        st.builds(plain, range_parts(), st.just('daterange')),
        st.builds(time_only, clocks, st.just('time')),
        st.builds(time_only, pods, st.just('timerange')),
        durations(),
        st.builds(combo, date_parts(), st.one_of(clocks, pods)),
        st.just({'form': 'present', 's': 'PRESENT_REF', 'fields': expected_fields(now=True), 'canonical': True, 'components': 1}))


def ctor_cases():
    dts = st.datetimes(min_value=dt.datetime(1, 1, 1), max_value=dt.datetime(9999, 12, 31, 23, 59, 59))
    edge = st.sampled_from(['0001-01-01T00:00:00', '9999-12-31T23:59:59', '2020-02-29T12:00:00', '1999-12-31T23:59:00',
                            '2000-01-01T00:00:01', '2024-10-05T07:00:00'])
    iso = st.one_of(st.builds(lambda d: d.replace(microsecond=0).isoformat(), dts), edge,
                    st.builds(lambda d, z: d.replace(microsecond=0, minute=0 if z & 1 else d.minute,
                                                     second=0 if z & 2 else d.second).isoformat(), dts, st.integers(0, 3)))
    hms = st.tuples(st.integers(0, 23), st.integers(0, 59), st.integers(0, 59)).map(list)
    loops = st.builds(lambda vs, poke: {'form': 'ctor', 'kind': 'time-loop', 'values': vs, 'poke': poke}, st.lists(hms, min_size=2, max_size=5), st.booleans())
    single = st.builds(lambda i, k: {'form': 'ctor', 'kind': k, 'value': i}, iso, st.sampled_from(['date', 'datetime', 'time']))
    return st.one_of(single, single, single, loops)


# ---- case function -------------------------------------------------------------------------------
def is_zero_amount(case, v=None):
    return case.get('form') == 'duration' and Decimal(case['amount']) == 0


PREDICATES = {'c14_zero_amount': is_zero_amount}


def run_timex(case):
    from datatypes_timex_expression import Timex
    s = case['s']
    vs = []
    t = Timex(s)
    got = fields_of(t)
    exp = full_fields(case['fields']) if case['fields'] is not None else None
    if exp is not None and got != exp:
        diff = {k: [exp[k], got[k]] for k in FIELDS if exp[k] != got[k]}
        vs.append(V('PARSE_FIELDS', {'s': s, 'expected_vs_got': diff}, bucket='PARSE_FIELDS:' + case['form']))
    out = t.timex_value()
    t2 = Timex(out)
    got2 = fields_of(t2)
    if got2 != got:
        diff = {k: [got[k], got2[k]] for k in FIELDS if got[k] != got2[k]}
        vs.append(V('ROUNDTRIP_FIELDS', {'s': s, 'out': out, 'first_vs_second': diff}, bucket='ROUNDTRIP:' + case['form']))
    out2 = t2.timex_value()
    if out2 != out:
        vs.append(V('NOT_IDEMPOTENT', {'s': s, 'out': out, 'out2': out2}, bucket='IDEMP:' + case['form']))
    if case['canonical'] and out != s:
        vs.append(V('CANONICAL_CHANGED', {'s': s, 'out': out}, bucket='CANON:' + case['form']))
    frac = case['form'] == 'duration' and '.' in case['amount']
    return R(vs, nontrivial=case['components'] >= 2 or frac, labels=[case['form']] + (['fractional'] if frac else []),
             obs={'out': out, 'types': sorted(t.types)}, key=s, evals=1)


def run_time_loop(case):
    """from_time must capture the VALUE: one Time object is re-used and mutated between calls; every Timex made from it must keep
    formatting to the value it was made from, and changing one Timex must not change another"""
    from datatypes_timex_expression import Timex
    from datatypes_timex_expression.time import Time
    vals = case['values']
    clock = Time(*vals[0])
    made = []
    for h, m, s in vals:
        clock.hour, clock.minute, clock.second = h, m, s
        made.append(Timex.from_time(clock))
    if case.get('poke') and len(made) > 1:
        made[-1].minute = (vals[-1][1] + 7) % 60      # touching the last one must not touch the others
    vs = []
    got = [t.timex_value() for t in made]
    exp = [_time_canon(h, m, s) for h, m, s in vals]
    if case.get('poke') and len(made) > 1:
        exp[-1] = _time_canon(vals[-1][0], (vals[-1][1] + 7) % 60, vals[-1][2])
    if got != exp:
        vs.append(V('FROM_TIME_ALIASING', {'values': vals, 'expected': exp, 'got': got}, bucket='CTOR:time-loop'))
    return R(vs, nontrivial=len(vals) > 1, labels=['ctor:time-loop'], obs={'out': got}, key=['time-loop', vals, bool(case.get('poke'))])


def run_ctor(case):
    if case.get('kind') == 'time-loop':
        return run_time_loop(case)
    from datatypes_timex_expression import Timex
    from datatypes_timex_expression.time import Time
    d = dt.datetime.fromisoformat(case['value'])
    vs = []
    if case['kind'] == 'date':
        out = Timex.from_date(d).timex_value()
        exp = '%04d-%02d-%02d' % (d.year, d.month, d.day)
    elif case['kind'] == 'datetime':
        out = Timex.from_date_time(d).timex_value()
        exp = '%04d-%02d-%02d' % (d.year, d.month, d.day) + _time_canon(d.hour, d.minute, d.second)
    else:
        out = Timex.from_time(Time(d.hour, d.minute, d.second)).timex_value()
        exp = _time_canon(d.hour, d.minute, d.second)
    if out != exp:
        vs.append(V('CTOR', {'kind': case['kind'], 'value': case['value'], 'expected': exp, 'got': out}, bucket='CTOR:' + case['kind']))
    return R(vs, nontrivial=case['kind'] != 'date' and (d.minute != 0 or d.second != 0), labels=['ctor:' + case['kind']],
             obs={'out': out}, key=[case['kind'], case['value']])


def _time_canon(h, m, s):
    if s:
        return 'T%02d:%02d:%02d' % (h, m, s)
    if m:
        return 'T%02d:%02d' % (h, m)
    return 'T%02d' % h


def run_any(case):
    return run_ctor(case) if case.get('form') == 'ctor' else run_timex(case)


def exhaustive_small():
    """Every member of the small finite sub-grammars."""
    out = []
    for m in range(1, 13):
        out.append({'form': 'daterange', 's': 'XXXX-%02d' % m, 'fields': expected_fields(month=m), 'canonical': True, 'components': 1})
        for w in range(1, 6):
            out.append({'form': 'daterange', 's': 'XXXX-%02d-W%02d' % (m, w), 'fields': expected_fields(month=m, week_of_month=w),
                        'canonical': True, 'components': 2})
            for d in range(1, 8):
                out.append({'form': 'daterange', 's': 'XXXX-%02d-WXX-%d-%d' % (m, w, d),
                            'fields': expected_fields(month=m, week_of_month=w, day_of_week=d), 'canonical': True, 'components': 3})
        for d in range(1, 32):
            out.append({'form': 'date', 's': 'XXXX-%02d-%02d' % (m, d), 'fields': expected_fields(month=m, day_of_month=d),
                        'canonical': True, 'components': 2})
    for w in range(1, 8):
        out.append({'form': 'date', 's': 'XXXX-WXX-%d' % w, 'fields': expected_fields(day_of_week=w), 'canonical': True, 'components': 1})
        for p in ['DT', 'NI', 'MO', 'AF', 'EV']:
            out.append({'form': 'date+time', 's': 'XXXX-WXX-%dT%s' % (w, p), 'fields': expected_fields(day_of_week=w, part_of_day=p),
                        'canonical': True, 'components': 2})
    for s in ['SP', 'SU', 'FA', 'WI']:
        out.append({'form': 'daterange', 's': s, 'fields': expected_fields(season=s), 'canonical': True, 'components': 1})
    for h in range(24):
        for m in range(60):
            out.append({'form': 'time', 's': _time_canon(h, m, 0), 'fields': expected_fields(hour=h, minute=m, second=0),
                        'canonical': True, 'components': 1})
    for wk in range(1, 54):
        out.append({'form': 'daterange', 's': '2021-W%02d' % wk, 'fields': expected_fields(year=2021, week_of_year=wk),
                    'canonical': True, 'components': 2})
        out.append({'form': 'daterange', 's': '2021-W%02d-WE' % wk, 'fields': expected_fields(year=2021, week_of_year=wk, weekend=True),
                    'canonical': True, 'components': 3})
    return out


def run_spellings(case):
    """history: several spellings of ONE amount (2.5, 2.50, 02.5, the number assigned to the field) are formatted one after the other in
    one process; every spelling must denote the amount after the round trip and the canonical spelling must come back unchanged, whatever
    was formatted before it"""
    from datatypes_timex_expression import Timex
    unit, kind = case['unit'], case['kind']
    field = (DATE_UNITS if kind == 'date' else TIME_UNITS)[unit]
    vs = []
    outs = []
    for sp in case['spellings']:
        if sp[0] == 'field':        # the way TimexCreator / callers build durations: assign the number
            t = Timex()
            setattr(t, field, int(sp[1]) if '.' not in sp[1] else Decimal(sp[1]))
            src = 'Timex().%s = %s' % (field, sp[1])
        else:
            src = ('P%s%s' if kind == 'date' else 'PT%s%s') % (sp[1], unit)
            t = Timex(src)
        out = t.timex_value()
        outs.append([src, out])
        back = getattr(Timex(out), field)
        if back is None or Decimal(str(back)) != Decimal(case['canonical']):
            vs.append(V('ROUNDTRIP_FIELDS', {'history': outs, 'amount': case['canonical']}, bucket='HISTORY_ROUNDTRIP'))
            break
        if sp[1] == case['canonical'] and out != ('P%s%s' if kind == 'date' else 'PT%s%s') % (case['canonical'], unit):
            vs.append(V('CANONICAL_CHANGED', {'history': outs, 'amount': case['canonical']}, bucket='HISTORY_CANON'))
            break
    return R(vs, nontrivial=len({x[1] for x in case['spellings']}) >= 2, labels=['history:equal-amounts'], obs={'outs': outs},
             key=['spellings', kind, unit, case['spellings']])


def spelling_cases():
    def mk(n, f, kinds, order, ku):
        canon = str(n) if not f else '%d.%s' % (n, f)
        alts = {'canon': ('text', canon), 'zeros': ('text', canon + ('0' if f else '.0')), 'zeros2': ('text', canon + ('00' if f else '.00')),
                'lead': ('text', '0' + canon), 'field': ('field', canon), 'field0': ('field', canon + ('0' if f else '.0'))}
        sp = [alts[k] for k in kinds]
        sp = [sp[i % len(sp)] for i in order][:5] if order else sp
        kind, unit = ku
        return {'canonical': canon, 'spellings': [list(x) for x in sp], 'unit': unit, 'kind': kind}
    frac = st.one_of(st.just(''), st.text('0123456789', min_size=0, max_size=2).map(lambda x: (x + '5')), st.sampled_from(['5', '25', '75', '1']))
    return st.builds(mk, st.one_of(st.integers(1, 60), st.integers(1, 5000)), frac,
                     st.lists(st.sampled_from(['canon', 'zeros', 'zeros2', 'lead', 'field', 'field0']), min_size=2, max_size=4, unique=True),
                     st.lists(st.integers(0, 3), min_size=0, max_size=5),
                     st.sampled_from([('date', 'Y'), ('date', 'M'), ('date', 'W'), ('date', 'D'), ('time', 'H'), ('time', 'M'), ('time', 'S')]))


def parts(tier, seed):
    n = 20000 if tier == 'quick' else 1000000
    nc = 4000 if tier == 'quick' else 200000
    ps = [
        enum_part('small-exhaustive', exhaustive_small, run_timex, exhaustive=True),
        hyp_part('grammar', timex_cases, run_timex, n, min_shard=1000),
        hyp_part('constructors', ctor_cases, run_ctor, nc, min_shard=1000),
        hyp_part('equal-amount-histories', spelling_cases, run_spellings, nc, min_shard=1000),
    ]
    if tier == 'thorough':
        from checks import fuzz_tier
        ps.append(fuzz_tier.atheris_part('atheris-coverage-guided', 'c14', 120, run_any))
    return ps
