"""C15 - TIMEX resolution and constraint solving only return correct, valid values.

Resolver: stdlib date arithmetic is the oracle.  Range resolver: validity predicate (soundness for every returned
TIMEX, completeness for a single date range and weekday candidates), never one expected list.
A call that does not return within the watchdog allowance is a violation (kind NO_RETURN).
"""
import datetime as dt
import re
from decimal import Decimal

from hypothesis import strategies as st

from lib.engine import R, V, enum_part, hyp_part

ID = 'C15'
RULE = ('resolver cases: weekday / duration / year / month / open-month / time TIMEXes x reference dates 1950-2090 (weekday x 21-day window '
        'exhaustively); range-resolver cases: 1-3 candidates (weekday, month-day, clock time, weekday|month-day + time, duration) x 1-3 '
        'date-range constraints ((start,end,PnD), YYYY-MM, YYYY) in a 2-year window x 0-2 time-range constraints; non-trivial = >= 2 '
        'constraints, or a range crossing a year boundary, or a December constraint, or (resolver) month 12 / reference within a day of '
        'the weekday; distinct = distinct argument tuple')
ASSUMPTIONS = ['constraints are generated self-consistent (end = start + duration); duration candidates are only mixed in, never alone',
               'Feb 29 month-day candidates are generated only when every year touched by the date ranges is a leap year '
               '(an impossible calendar date is not a well-formed candidate for those years)']

UNIT_SECONDS = {'Y': 31536000, 'M': 2592000, 'W': 604800, 'D': 86400, 'TH': 3600, 'TM': 60, 'TS': 1}
DATE_RE = re.compile(r'^(\d{4})-(\d\d)-(\d\d)$')
RES_RE = re.compile(r'^(\d{4})-(\d\d)-(\d\d)(?:T(\d\d)(?::(\d\d)(?::(\d\d))?)?)?$')
POD = {'MO': (8, 12), 'AF': (12, 16), 'EV': (16, 20), 'NI': (20, 24), 'DT': (8, 18)}


def _d(s):
    return dt.date.fromisoformat(s)


# ---- TimexResolver ---------------------------------------------------------------------------------------------------
def run_resolve(case):
    from datatypes_timex_expression import TimexResolver
    timex, ref = case['timex'], dt.datetime.fromisoformat(case['ref'])
    kind = case['kind']
    vs = []
    try:
        res = TimexResolver.resolve([timex], ref)
    except Exception as e:      # the statement is about what resolve RETURNS; raising on a grammatical TIMEX is a violation
        return R([V('EXCEPTION', {'timex': timex, 'ref': case['ref'], 'error': repr(e)}, bucket='RESOLVE_EXC:' + kind)],
                 labels=['resolve:' + kind], key=[timex, case['ref']])
    got = [{k: getattr(e, k, None) for k in ('timex', 'type', 'value', 'start', 'end')} for e in res.values]

    def bad(k, exp):
        vs.append(V(k, {'timex': timex, 'ref': case['ref'], 'expected': exp, 'got': got}, bucket='RESOLVE:' + kind))
    nt = False
    if kind == 'weekday':
        dow = case['dow']                                   # ISO 1..7
        delta_back = (ref.isoweekday() - dow) % 7 or 7
        delta_fwd = (dow - ref.isoweekday()) % 7 or 7
        exp = [(ref.date() - dt.timedelta(days=delta_back)).isoformat(), (ref.date() + dt.timedelta(days=delta_fwd)).isoformat()]
        ok = (len(got) == 2 and [g['value'] for g in got] == exp and all(g['type'] == 'date' and g['timex'] == timex for g in got))
        if not ok:
            bad('WEEKDAY_RESOLUTION', exp)
        nt = delta_back in (1, 7) or delta_fwd == 1 or exp[0][:4] != exp[1][:4]
    elif kind == 'duration':
        exp = Decimal(case['amount']) * UNIT_SECONDS[case['unit']]
        ok = len(got) == 1 and got[0]['type'] == 'duration'
        if ok:
            try:
                ok = Decimal(got[0]['value']) == exp
            except Exception:
                ok = False
        if not ok:
            bad('DURATION_SECONDS', str(exp))
        nt = '.' in case['amount'] or Decimal(case['amount']) >= 60
    elif kind == 'year':
        y = case['year']
        exp = ['%04d-01-01' % y, '%04d-01-01' % (y + 1)]
        if not (len(got) == 1 and got[0]['type'] == 'daterange' and [got[0]['start'], got[0]['end']] == exp):
            bad('YEAR_RANGE', exp)
        nt = True
    elif kind == 'month':
        y, m = case['year'], case['month']
        ny, nm = (y + 1, 1) if m == 12 else (y, m + 1)
        exp = ['%04d-%02d-01' % (y, m), '%04d-%02d-01' % (ny, nm)]
        if not (len(got) == 1 and got[0]['type'] == 'daterange' and [got[0]['start'], got[0]['end']] == exp):
            bad('MONTH_RANGE', exp)
        nt = m in (1, 12)
    elif kind == 'openmonth':
        m = case['month']
        exp = []
        for y in (ref.year - 1, ref.year):
            ny, nm = (y + 1, 1) if m == 12 else (y, m + 1)
            exp.append(['%04d-%02d-01' % (y, m), '%04d-%02d-01' % (ny, nm)])
        if not (len(got) == 2 and [[g['start'], g['end']] for g in got] == exp and all(g['type'] == 'daterange' for g in got)):
            bad('OPEN_MONTH_RANGE', exp)
        nt = m in (1, 12)
    elif kind == 'time':
        exp = '%02d:%02d:%02d' % tuple(case['hms'])
        if not (len(got) == 1 and got[0]['type'] == 'time' and got[0]['value'] == exp):
            bad('TIME_VALUE', exp)
        nt = case['hms'][0] in (0, 12) or case['hms'][1] != 0
    elif kind == 'date':
        exp = case['timex']
        if not (len(got) == 1 and got[0]['type'] == 'date' and got[0]['value'] == exp):
            bad('DATE_VALUE', exp)
        nt = True
    # well-formedness of whatever came back
    for g in got:
        for k in ('value', 'start', 'end'):
            val = g[k]
            if g['type'] in ('date', 'daterange') and val not in (None, 'not resolved'):
                m = DATE_RE.match(val)
                try:
                    dt.date(int(m.group(1)), int(m.group(2)), int(m.group(3)))
                except Exception:
                    vs.append(V('MALFORMED_DATE', {'timex': timex, 'ref': case['ref'], 'field': k, 'got': g}, bucket='MALFORMED:' + kind))
    return R(vs, nontrivial=nt, labels=['resolve:' + kind], obs=got, key=[timex, case['ref']])


# ---- TimexRangeResolver ----------------------------------------------------------------------------------------------
def parse_date_constraint(c):
    """Returns (start, end) of a generated date-range constraint."""
    if c.startswith('('):
        s, e, _ = c[1:-1].split(',')
        return _d(s), _d(e)
    if len(c) == 4:
        return dt.date(int(c), 1, 1), dt.date(int(c) + 1, 1, 1)
    y, m = int(c[:4]), int(c[5:7])
    return dt.date(y, m, 1), (dt.date(y + 1, 1, 1) if m == 12 else dt.date(y, m + 1, 1))


def parse_time_constraint(c):
    """(start_seconds, end_seconds)"""
    if c.startswith('('):
        s, e, _ = c[1:-1].split(',')

        def secs(t):
            p = [int(x) for x in t[1:].split(':')]
            p += [0] * (3 - len(p))
            return p[0] * 3600 + p[1] * 60 + p[2]
        return secs(s), secs(e)
    a, b = POD[c[1:]]
    return a * 3600, b * 3600


def parse_candidate(c):
    """dict(dow|md, time) for non-duration candidates; None for durations."""
    if c.startswith('P'):
        return None
    d, _, t = c.partition('T')
    out = {'dow': None, 'md': None, 'time': None}
    if d.startswith('XXXX-WXX-'):
        out['dow'] = int(d[-1])
    elif d.startswith('XXXX-'):
        out['md'] = (int(d[5:7]), int(d[8:10]))
    if t:
        p = [int(x) for x in t.split(':')]
        p += [0] * (3 - len(p))
        out['time'] = tuple(p)
    return out


def run_evaluate(case):
    from datatypes_timex_expression import TimexRangeResolver
    cands, dcons, tcons = case['candidates'], case['date_constraints'], case['time_constraints']
    vs = []
    try:
        res = TimexRangeResolver.evaluate(list(cands), list(dcons) + list(tcons))
        got = [r.timex_value() for r in res]
    except Exception as e:
        return R([V('EXCEPTION', {'candidates': cands, 'date_constraints': dcons, 'time_constraints': tcons, 'error': repr(e)},
                    bucket='EVAL_EXC:' + type(e).__name__)], labels=['evaluate'], key=[cands, dcons, tcons])
    pc = [p for p in (parse_candidate(c) for c in cands) if p is not None]
    dranges = [parse_date_constraint(c) for c in dcons]
    tranges = [parse_time_constraint(c) for c in tcons]

    def bad(kind, detail):
        vs.append(V(kind, dict(detail, candidates=cands, date_constraints=dcons, time_constraints=tcons, got=got), bucket='EVAL:' + kind))
    parsed = []
    for g in got:
        m = RES_RE.match(g)
        if not m:
            bad('NOT_DEFINITE', {'timex': g})
            continue
        try:
            date = dt.date(int(m.group(1)), int(m.group(2)), int(m.group(3)))
        except ValueError:
            bad('INVALID_DATE', {'timex': g})
            continue
        time = None
        if m.group(4) is not None:
            time = (int(m.group(4)), int(m.group(5) or 0), int(m.group(6) or 0))
        parsed.append((g, date, time))
        # instance of a candidate: every component the candidate states (weekday, month-day, time) is reproduced
        inst = [p for p in pc if (p['dow'] is None or date.isoweekday() == p['dow']) and
                (p['md'] is None or (date.month, date.day) == p['md']) and (p['time'] is None or p['time'] == time)]
        if not inst:
            bad('NOT_AN_INSTANCE', {'timex': g})
        if not any(a <= date < b for a, b in dranges):
            bad('OUTSIDE_DATE_RANGES', {'timex': g})
        if tranges:
            if time is None:
                bad('NO_TIME_DESPITE_TIME_RANGES', {'timex': g})
            else:
                s = time[0] * 3600 + time[1] * 60 + time[2]
                if not any(a <= s < b for a, b in tranges):
                    bad('OUTSIDE_TIME_RANGES', {'timex': g})
    if len(set(got)) != len(got):
        bad('DUPLICATES', {})
    # completeness: single date range, weekday candidates
    if len(dranges) == 1:
        a, b = dranges[0]
        exp = set()
        for p in pc:
            if p['dow'] is None:
                continue
            if tranges:
                if p['time'] is None:
                    continue
                s = p['time'][0] * 3600 + p['time'][1] * 60 + p['time'][2]
                # overlapping time ranges are intersected by the resolver, disjoint ones are alternatives; the day is
                # demanded only when the candidate's time lies in EVERY supplied range (true under both readings)
                if not all(x <= s < y for x, y in tranges):
                    continue
            d = a
            while d < b:
                if d.isoweekday() == p['dow']:
                    exp.add((d, p['time']))
                d += dt.timedelta(days=1)
        have = {(d, t) for _, d, t in parsed} | {(d, None) for _, d, t in parsed}
        missing = sorted(exp - have, key=str)
        if missing:
            bad('MISSING_DAYS', {'missing': [[d.isoformat(), t] for d, t in missing[:5]], 'n_missing': len(missing)})
    crosses_year = any(a.year != (b - dt.timedelta(days=1)).year for a, b in dranges)
    december = any(c[5:7] == '12' and len(c) == 7 for c in dcons)
    overlap_late = False
    for i in range(len(dranges)):
        for j in range(i + 1, len(dranges)):
            (a, b), (c, d) = dranges[i], dranges[j]
            if a < d and c < b and (i, j) != (0, 1):
                overlap_late = True
    labels = ['evaluate', 'ndate:%d' % len(dcons), 'ntime:%d' % len(tcons), 'results:%s' % ('0' if not got else '1+')]
    if december:
        labels.append('december_constraint')
    if overlap_late:
        labels.append('overlap_not_first_pair')
    if any(p['dow'] is None and p['md'] is None for p in pc):
        labels.append('pure_time_candidate')
    if any(c.startswith('P') for c in cands):
        labels.append('duration_candidate')
    return R(vs, nontrivial=len(dcons) + len(tcons) >= 2 or crosses_year or december, labels=labels, obs={'result': got[:8], 'n': len(got)},
             key=[cands, dcons, tcons])


def run_any(case):
    return run_evaluate(case) if 'candidates' in case else run_resolve(case)


# ---- generators ------------------------------------------------------------------------------------------------------
def refs():
    return st.one_of(
        st.datetimes(min_value=dt.datetime(1950, 1, 1), max_value=dt.datetime(2090, 12, 31, 23, 59, 59)),
        st.sampled_from([dt.datetime(2019, 12, 31, 23, 59), dt.datetime(2020, 2, 29), dt.datetime(2020, 1, 1), dt.datetime(2017, 9, 28, 15, 30),
                         dt.datetime(1999, 12, 31), dt.datetime(2000, 1, 1)])).map(lambda d: d.replace(microsecond=0).isoformat())


def amount_texts():
    return st.one_of(st.integers(1, 5000).map(str), st.integers(1, 10 ** 7).map(str),
                     st.builds(lambda a, f: '%d.%s' % (a, f), st.integers(0, 999), st.text('0123456789', min_size=1, max_size=4))
                     ).filter(lambda t: Decimal(t) > 0)     # zero amounts: see C14's known finding (not a duration any more)


def resolve_cases():
    wk = st.builds(lambda d, r: {'kind': 'weekday', 'timex': 'XXXX-WXX-%d' % d, 'dow': d, 'ref': r}, st.integers(1, 7), refs())

    def dur(a, u, r):
        tx = ('PT%s%s' % (a, u[1])) if u.startswith('T') else 'P%s%s' % (a, u)
        return {'kind': 'duration', 'timex': tx, 'amount': a, 'unit': u, 'ref': r}
    du = st.builds(dur, amount_texts(), st.sampled_from(sorted(UNIT_SECONDS)), refs())
    yr = st.builds(lambda y, r: {'kind': 'year', 'timex': '%04d' % y, 'year': y, 'ref': r},
                   st.one_of(st.integers(1, 9998), st.integers(1900, 2100)), refs())
    mo = st.builds(lambda y, m, r: {'kind': 'month', 'timex': '%04d-%02d' % (y, m), 'year': y, 'month': m, 'ref': r},
                   st.one_of(st.integers(1, 9998), st.integers(1900, 2100)), st.one_of(st.integers(1, 12), st.just(12)), refs())
    om = st.builds(lambda m, r: {'kind': 'openmonth', 'timex': 'XXXX-%02d' % m, 'month': m, 'ref': r},
                   st.one_of(st.integers(1, 12), st.just(12)), refs())
    tm = st.builds(lambda h, m, s, r: {'kind': 'time', 'timex': 'T%02d:%02d:%02d' % (h, m, s), 'hms': [h, m, s], 'ref': r},
                   st.integers(0, 23), st.integers(0, 59), st.integers(0, 59), refs())
    da = st.builds(lambda d, r: {'kind': 'date', 'timex': d.isoformat(), 'ref': r}, st.dates(dt.date(1, 1, 1), dt.date(9999, 12, 31)), refs())
    return st.one_of(wk, du, yr, mo, om, tm, da)


def weekday_window():
    out = []
    for base in (dt.datetime(2019, 12, 20, 9, 0), dt.datetime(2020, 2, 20, 0, 0), dt.datetime(2023, 12, 25, 23, 59, 59)):
        for off in range(21):
            ref = base + dt.timedelta(days=off)
            for d in range(1, 8):
                out.append({'kind': 'weekday', 'timex': 'XXXX-WXX-%d' % d, 'dow': d, 'ref': ref.isoformat()})
    for y in (1, 1999, 2019, 2020, 9998):
        for m in range(1, 13):
            out.append({'kind': 'month', 'timex': '%04d-%02d' % (y, m), 'year': y, 'month': m, 'ref': '2020-06-15T00:00:00'})
            out.append({'kind': 'openmonth', 'timex': 'XXXX-%02d' % m, 'month': m, 'ref': '%04d-06-15T00:00:00' % max(y, 2)})
    return out


def evaluate_cases():
    base_year = st.sampled_from([2019, 2020, 2023, 1999, 2087])

    def build(y0):
        lo, hi = dt.date(y0, 1, 1), dt.date(y0 + 2, 1, 1)
        span = (hi - lo).days

        def explicit(off, n, weeks):
            s = lo + dt.timedelta(days=off)
            days = n * (7 if weeks else 1)
            e = s + dt.timedelta(days=days)
            return '(%s,%s,P%d%s)' % (s.isoformat(), e.isoformat(), n, 'W' if weeks else 'D')
        drange = st.one_of(
            st.builds(explicit, st.integers(0, span - 1), st.integers(1, 120), st.just(False)),
            st.builds(explicit, st.integers(0, span - 1), st.integers(1, 10), st.just(True)),
            st.builds(lambda y, m: '%04d-%02d' % (y, m), st.integers(y0, y0 + 1), st.one_of(st.integers(1, 12), st.just(12))),
            st.integers(y0, y0 + 1).map(lambda y: '%04d' % y))

        def trange_explicit(h, mm, n):
            n = max(1, min(n, 24 - h - (1 if mm else 0)))
            s = 'T%02d' % h + (':%02d' % mm if mm else '')
            e = 'T%02d' % (h + n) + (':%02d' % mm if mm else '')
            return '(%s,%s,PT%dH)' % (s, e, n)
        trange = st.one_of(st.builds(trange_explicit, st.integers(0, 22), st.sampled_from([0, 0, 30, 15]), st.integers(1, 12)),
                           st.sampled_from(['TMO', 'TAF', 'TEV', 'TNI', 'TDT']))
        times = st.builds(lambda h, m, s: 'T%02d' % h + (':%02d' % m if (m or s) else '') + (':%02d' % s if s else ''),
                          st.integers(0, 23), st.sampled_from([0, 0, 30, 59]), st.sampled_from([0, 0, 0, 15]))
        wd = st.integers(1, 7).map(lambda d: 'XXXX-WXX-%d' % d)
        leap_ok = all((y % 4 == 0 and (y % 100 != 0 or y % 400 == 0)) for y in (y0 - 1, y0, y0 + 1, y0 + 2))
        md_dates = st.dates(dt.date(2019 if not leap_ok else 2020, 1, 1), dt.date(2019 if not leap_ok else 2020, 12, 31))
        md = md_dates.map(lambda d: 'XXXX-%02d-%02d' % (d.month, d.day))
        cand = st.one_of(wd, wd, md, times, st.builds(lambda a, b: a + b, wd, times), st.builds(lambda a, b: a + b, md, times),
                         st.sampled_from(['PT5M', 'P3D', 'PT2H']))
        return st.builds(lambda cs, ds, ts: {'candidates': cs, 'date_constraints': ds, 'time_constraints': ts},
                         st.lists(cand, min_size=1, max_size=3), st.lists(drange, min_size=1, max_size=3),
                         st.lists(trange, min_size=0, max_size=2))
    return base_year.flatmap(build)


def parts(tier, seed):
    nr, ne = (5000, 3000) if tier == 'quick' else (200000, 100000)
    return [
        enum_part('resolve-window', weekday_window, run_resolve, exhaustive=True, hang_is_violation=True, hang_s=60),
        hyp_part('resolve', resolve_cases, run_resolve, nr, min_shard=300, hang_is_violation=True, hang_s=60),
        hyp_part('evaluate', evaluate_cases, run_evaluate, ne, min_shard=200, hang_is_violation=True, hang_s=60),
    ]
