"""C12 - entities returned by one call never overlap (default options)."""
from hypothesis import strategies as st

from checks import c01
from gens import allmodels, exprs
from lib.engine import R, V, enum_part, hyp_part

ID = 'C12'
RULE = ('every registered (model, culture) pair applied to: (1) every Python-supported Specs input of the culture (all models of the culture; 25% '
        'sample in the quick tier); (2) single generated expressions (families of C03-C10, C13, C20) alone and in carriers; (3) sentences of 2-4 '
        'generated expressions of different families joined by punctuation-led filler separators; (4) deterministic chains of 2-3 amounts with the same unit separated by blanks only, and dates whose last token can also start a clock time (may 5 pm); oracle: sort the entities of ONE parse call by '
        'start, neighbours must satisfy next.start > previous.end; non-trivial = some model returned >= 2 entities for the query; '
        'distinct = (culture, query)')
ASSUMPTIONS = ['separators are a static list without date, time, number or connector words']

SEPARATORS = [' ; meanwhile ', ' | ', ' ... then ', ' ; ', ' , also ', ' /// ']
SEPARATORS_CJK = [' ; ', ' | ', '。', ' ... ']


def overlap_violations(culture, query, results):
    vs = []
    multi = False
    for name, ents in results.items():
        if len(ents) >= 2:
            multi = True
        spans = sorted((e['start'], e['end'], e['text'], e['type']) for e in ents)
        for a, b in zip(spans, spans[1:]):
            if b[0] <= a[1]:
                vs.append(V('ENTITIES_OVERLAP', {'culture': culture, 'model': name, 'query': query, 'first': list(a), 'second': list(b)},
                            sig=[culture, name, query], bucket='OVERLAP:%s:%s' % (culture, name)))
                break
    return vs, multi


def run_query(case):
    culture, q = case['culture'], case['q']
    results = allmodels.run_all(culture, q, case.get('ref', '2016-11-07T12:00:00'))
    vs, multi = overlap_violations(culture, q, results)
    return R(vs, nontrivial=multi, labels=['src:' + case.get('src', '?'), 'culture:' + culture] + (['multi-entity'] if multi else []),
             obs={'query': q, 'entities': {k: v for k, v in results.items() if v}}, key=[culture, q], evals=len(results))


# ---- known-finding predicates for generated sentences ---------------------------------------------------------------------
def _detail(v):
    return v.detail or {}


def pred_currency_shared_symbol(case, v):
    """'<num> $ <num>': the prefix reading and the suffix reading share the currency symbol"""
    d = _detail(v)
    if d.get('model') != 'currency':
        return False
    a, b = d['first'], d['second']
    shared = d['query'][b[0]:a[1] + 1]
    return len(shared.strip()) <= 4 and any(ch in shared for ch in '$€£¥₹') and not any(ch.isdigit() for ch in shared)


def pred_pt_numeric_date_inside_datetimerange(case, v):
    """pt-br: a numeric date followed later by another date: a bogus date-time range starts INSIDE the first date
    ('25-10-1931 , also 2000-03-31' -> date '25-10-1931' and range '5-10-1931 , also 2000-03-31')"""
    d = _detail(v)
    if d.get('culture') != 'pt-br' or d.get('model') != 'datetime':
        return False
    a, b = d['first'], d['second']
    return b[3].endswith('datetimerange') and a[0] < b[0] <= a[1] and any(ch.isdigit() for ch in a[2])


def pred_en_range_fragment_shares_number(case, v):
    """en-us: a from..to date-time range that follows another entity in the same query is split into two entities that share
    the day/hour number ('... ; from 10 February 1941 12 am to 10 February 1942 1:01am' -> '10 february 1941 12 am to 10' and
    '10 february 1942 1:01am')"""
    import re
    d = _detail(v)
    if d.get('culture') != 'en-us' or d.get('model') != 'datetime':
        return False
    a, b = d['first'], d['second']
    shared = d['query'][b[0]:a[1] + 1]
    return bool(re.fullmatch(r'\d{1,2}(:\d\d)?\s?(am|pm)?', shared.strip().lower())) and (a[3].endswith('range') or b[3].endswith('range'))


def pred_zh_unit_nested(case, v):
    """zh-cn unit models run a Chinese and an embedded English extractor/parser pair and keep both readings of a Latin-script
    expression when one is nested in the other ('3.5 att' and '5 att'; 'n $ 5' and '$ 5')"""
    d = _detail(v)
    if d.get('culture') != 'zh-cn' or d.get('model') not in ('currency', 'dimension', 'temperature', 'age'):
        return False
    a, b = d['first'], d['second']
    return (a[0] <= b[0] and b[1] <= a[1]) or (b[0] <= a[0] and a[1] <= b[1])


def pred_it_meno_fragment(case, v):
    """it-it number model: the negative word 'meno' found INSIDE another word ('armeno', 'rumeno') yields number entities made of
    'meno' and the following punctuation, reported twice or nested"""
    d = _detail(v)
    if d.get('culture') not in ('it-it', 'nl-nl') or d.get('model') != 'number':
        return False
    word = 'meno' if d['culture'] == 'it-it' else 'min'
    return all(str(x[2]).startswith(word) for x in (d['first'], d['second']))


def pred_phone_bracketed_group(case, v):
    import re
    d = _detail(v)
    if d.get('model') != 'phone_number':
        return False
    return bool(re.match(r'^\(\d{5}\)\s?\d{5,6}$', str(d['first'][2])))


def pred_zh_season_inside_holiday(case, v):
    d = _detail(v)
    if d.get('culture') != 'zh-cn' or d.get('model') != 'datetime':
        return False
    a, b = d['first'], d['second']
    inner = b if (a[0] <= b[0] and b[1] <= a[1]) else a if (b[0] <= a[0] and a[1] <= b[1]) else None
    return inner is not None and str(inner[2]) in ('春', '夏', '秋', '冬')


PREDICATES = {'c12_zh_unit_nested': pred_zh_unit_nested, 'c12_negative_word_fragment': pred_it_meno_fragment,
              'c12_phone_bracketed_group': pred_phone_bracketed_group, 'c12_zh_season_inside_holiday': pred_zh_season_inside_holiday,
              'c12_currency_shared_symbol': pred_currency_shared_symbol,
              'c12_pt_numeric_date_inside_datetimerange': pred_pt_numeric_date_inside_datetimerange,
              'c12_en_range_fragment_shares_number': pred_en_range_fragment_shares_number}


def sentence_cases(culture):
    seps = SEPARATORS_CJK if culture in ('zh-cn', 'ja-jp') else SEPARATORS

    def mk(xs, ss, lead):
        q = ''
        for i, x in enumerate(xs):
            q += x['text'] + (ss[i % len(ss)] if i < len(xs) - 1 else '')
        return {'culture': culture, 'q': lead + q, 'src': 'sentence', 'families': [x['family'] for x in xs]}
    return st.builds(mk, st.lists(exprs.expressions(culture, small_numbers=True), min_size=2, max_size=4), st.lists(st.sampled_from(seps), min_size=1, max_size=3),
                     st.sampled_from(['', '', 'note : ']))


def unit_chains(per_type):
    """Deterministic part: chains of two and three amounts with the same unit separated only by blanks ('5 usd 15 usd 50 usd'),
    for the first `per_type` table spellings of every (culture, unit type, prefix|suffix) and a list of common units."""
    from checks import c05

    def gen():
        seen = {}
        for c, t, kind, f, unit, epi in c05.table_entries():
            k = (c, t, kind)
            common = f.lower() in ('usd', 'us$', '$', 'dollars', 'dollar', 'euros', 'eur', '€', 'kg', 'km', 'm', 'years old', 'degrees', '元', '美元', 'cent',
                                   'cents', '£', 'yen', 'lb', 'mph', 'c', 'f')
            seen[k] = seen.get(k, 0) + 1
            if seen[k] > per_type and not common:
                continue
            cjk = c in ('zh-cn', 'ja-jp') and not f.isascii()
            sp = '' if cjk else ' '
            nums = ['5', '15', '50']
            if kind == 'suffix':
                items = [n + sp + f for n in nums]
            else:
                items = [f + sp + n for n in nums]
            for n in (2, 3):
                yield {'culture': c, 'q': ' '.join(items[:n]), 'src': 'unit-chain', 'only': [t]}
        # two different units in a row, the second amount a bare 2 or 3 ('3 km 2 miles', 'a 5 m 2 kg box'): a unit that also exists in
        # squared/cubed form must not swallow the next amount while the next entity keeps it too
        second = {'en-us': ['miles', 'kg', 'feet'], 'es-es': ['millas', 'kg'], 'es-mx': ['millas', 'kg'], 'fr-fr': ['miles', 'kg'],
                  'pt-br': ['milhas', 'kg'], 'nl-nl': ['mijl', 'kg'], 'zh-cn': ['公里', 'kg']}
        firsts = {}
        for c, t, kind, f, unit, epi in c05.table_entries():
            if t == 'dimension' and kind == 'suffix' and c in second and f.isascii() and f == f.lower() and len(f) <= 3 and f.isalpha():
                firsts.setdefault(c, [])
                if len(firsts[c]) < 40:
                    firsts[c].append(f)
        for c, fs in firsts.items():
            for f in fs:
                for u2 in second[c]:
                    for a2 in ('2', '3'):
                        yield {'culture': c, 'q': 'it is 5 %s %s %s away' % (f, a2, u2), 'src': 'unit-chain', 'only': ['dimension']}
    return gen


def phone_group_cases():
    """series of 3-4 digit groups with the separators and brackets of phone numbers: no single national format need cover the whole
    series, but whatever the phone model reports must be disjoint"""
    grp = st.integers(2, 7).flatmap(lambda n: st.text('0123456789', min_size=n, max_size=n))

    def mk(gs, seps, paren, plus, ci):
        gs = list(gs)
        if paren:
            gs[0] = '(' + gs[0] + ')'
        s = gs[0]
        for i, g in enumerate(gs[1:]):
            s += seps[i % len(seps)] + g
        if plus and not paren:
            s = '+' + s
        carrier = ['{}', 'call {} now', 'my number is {}', '{} or {}'][ci]
        return {'culture': 'en-us', 'q': carrier.format(s, s), 'src': 'phone-groups', 'only': ['phone_number']}
    return st.builds(mk, st.lists(grp, min_size=3, max_size=4), st.lists(st.sampled_from([' ', ' ', '-', ' - ', ')', '/']), min_size=1, max_size=3),
                     st.booleans(), st.booleans(), st.integers(0, 3))


def date_time_adjacency():
    """Deterministic part: a date whose last token can also start a clock time ('may 5 pm', 'back on oct 2 pm', '3 May 5pm'):
    candidates of two sub-extractors that share one token must be resolved to disjoint entities."""
    from gens import dt as G
    names = [m.lower() for m in G.MONTHS['en']] + [m.lower() for m in G.EN_ABBR]
    i = 0
    for name in sorted(set(names)):
        for d in range(1, 32):
            for mk in ('am', 'pm'):
                i += 1
                pre = ['', 'back on ', 'until ', 'the meeting is '][i % 4]
                yield {'culture': 'en-us', 'q': '%s%s %d %s' % (pre, name, d, mk), 'src': 'adjacency', 'only': ['datetime']}
                if d <= 12 and i % 3 == 0:
                    yield {'culture': 'en-us', 'q': '%s%d %s %d%s' % (pre, (d * 7) % 28 + 1, name, d, mk), 'src': 'adjacency', 'only': ['datetime']}


def zh_adjacency():
    """Deterministic part (zh-cn writes without blanks): a quantity directly followed by a second quantity whose number is 半
    ('3公斤半公里'), and a date range directly followed by a time of day ('从1月1日到1月5日下午3点')."""
    from checks import c05
    units = {}
    for c, t, kind, f, unit, epi in c05.table_entries():
        if c == 'zh-cn' and kind == 'suffix' and not f.isascii() and epi == 0:
            units.setdefault(t, [])
            if len(units[t]) < 8 and f not in units[t]:
                units[t].append(f)
    for t, us in sorted(units.items()):
        for u1 in us:
            yield {'culture': 'zh-cn', 'q': '3%s半' % u1, 'src': 'zh-adjacency', 'only': [t]}
            for u2 in us:
                yield {'culture': 'zh-cn', 'q': '3%s半%s' % (u1, u2), 'src': 'zh-adjacency', 'only': [t]}
                yield {'culture': 'zh-cn', 'q': '三%s半%s' % (u1, u2), 'src': 'zh-adjacency', 'only': [t]}
    ranges = ['从1月1日到1月5日', '1月1日到1月5日', '从2018年1月1日到2018年1月5日', '下周一到周五', '从明天到后天', '1月5日']
    times = ['下午3点', '晚上8点半', '上午10点', '3点', '下午三点十五分', '中午']
    for r in ranges:
        for tm in times:
            for glue in ('', '的'):
                for pre in ('', '我们', '我们会议安排在'):
                    yield {'culture': 'zh-cn', 'q': pre + r + glue + tm + ('放假' if pre else ''), 'src': 'zh-adjacency', 'only': ['datetime']}


def run_chain(case):
    culture, q = case['culture'], case['q']
    results = allmodels.run_all(culture, q, only=case['only'])
    vs, multi = overlap_violations(culture, q, results)
    return R(vs, nontrivial=multi, labels=['src:' + case['src'], 'culture:' + culture, 'type:' + case['only'][0]] + (['multi-entity'] if multi else []),
             obs={'query': q, 'entities': {k: v for k, v in results.items() if v}}, key=[culture, q], evals=len(results))


def warm(tier):
    c01.warm(tier)
    from checks import c05
    c05.table_entries()


def parts(tier, seed):
    q = tier == 'quick'
    ps = [enum_part('corpus-all-models', c01.corpus_cases(0.25 if q else 1, seed, salt=13), run_query, exhaustive=not q, weight=3)]
    ps.append(enum_part('unit-chains', unit_chains(12 if q else 60), run_chain, exhaustive=True))
    ps.append(enum_part('date-time-adjacency', date_time_adjacency, run_chain, exhaustive=True))
    ps.append(enum_part('zh-adjacency', zh_adjacency, run_chain, exhaustive=True))
    ps.append(hyp_part('phone-digit-groups', phone_group_cases, run_chain, 3000 if q else 60000, min_shard=300))
    for c in allmodels.CULTURES:
        n1 = (800 if c == 'en-us' else 200) if q else (10000 if c == 'en-us' else 2500)
        n2 = (1200 if c == 'en-us' else 300) if q else (30000 if c == 'en-us' else 5500)
        ps.append(hyp_part('single-' + c, (lambda c=c: c01.generated_cases(c)), run_query, n1, min_shard=100))
        ps.append(hyp_part('sentences-' + c, (lambda c=c: sentence_cases(c)), run_query, n2, min_shard=100))
    return ps
