"""C18 - generated pattern resources are faithful to the shared Patterns YAML.

Finite domain, enumerated exhaustively: every configFiles entry of the five resource-definitions.json and every
definition of the generated class.  Differential oracle: the repository's own generator (resource-generator/index.py,
run with the vendored pure-Python ruamel.yaml) against the checked-in module, definition by definition.
"""
import ast
import os
import shutil

from lib import env, resgen
from lib.engine import R, V, custom_part

ID = 'C18'
RULE = ('every definition (class attribute or helper function) of every generated resource module listed in the five '
        'resource-definitions.json files; one case per (module, definition) plus one per module header; non-trivial = definition whose '
        'value is not a plain literal constant (interpolated regex f-string, dictionary, list, function); distinct = (module, name); '
        'also: every banner-carrying module under resources/ must have a definition entry, and the independent YAML comparison is repeated on the '
        'imported resource objects AFTER every registered model of every culture was built and used (shared class-level data must stay as defined)')
ASSUMPTIONS = ['vendor/ruamel (pure-Python ruamel.yaml 0.18.16) parses the YAML like the generator\'s pinned dependency',
               'pattern file names are resolved case-insensitively (Base-Hashtag/Base-Url), as on the file systems the generator was written for']


def definitions(path):
    """name -> (normalised source, is_plain_constant); plus '<header>' for imports/class line."""
    with open(path, encoding='utf-8') as f:
        src = f.read()
    tree = ast.parse(src)
    out = {}
    header = []
    for node in tree.body:
        if isinstance(node, ast.ClassDef):
            header.append('class ' + node.name)
            for item in node.body:
                if isinstance(item, ast.Assign):
                    for t in item.targets:
                        out[ast.unparse(t)] = (ast.unparse(item.value), isinstance(item.value, ast.Constant))
                elif isinstance(item, ast.AnnAssign):
                    out[ast.unparse(item.target)] = (ast.unparse(item.value) if item.value else '', isinstance(item.value, ast.Constant))
                elif isinstance(item, (ast.FunctionDef,)):
                    out[item.name] = (ast.unparse(item), False)
                elif isinstance(item, ast.Expr) and isinstance(item.value, ast.Constant):
                    continue
                elif isinstance(item, ast.Pass):
                    continue
                else:
                    out['<stmt@%d>' % item.lineno] = (ast.unparse(item), False)
        else:
            header.append(ast.unparse(node))
    out['<header>'] = ('\n'.join(header), True)
    return out


def run(ctx):
    scratch = os.path.join(env.VERIF, '.work', 'C18-gen-%d' % os.getpid())
    try:
        mods = resgen.generate_all(scratch)
        nmods = 0
        identical = 0
        for pkg in sorted(mods):
            for name in sorted(mods[pkg]):
                gen, cur, yaml_path = mods[pkg][name]
                nmods += 1
                rel = os.path.relpath(cur, env.REPO)
                if not os.path.exists(gen):
                    raise env.HarnessError('generator produced no output for %s' % rel)
                if not os.path.exists(cur):
                    ctx.add_violation({'module': rel, 'name': None}, V('MODULE_MISSING', {'module': rel}, bucket='MISSING:' + rel))
                    continue
                with open(gen, 'rb') as f:
                    a = f.read()
                with open(cur, 'rb') as f:
                    b = f.read()
                if a == b:
                    identical += 1
                try:
                    g = definitions(gen)
                except SyntaxError as e:
                    ctx.add_violation({'module': rel, 'name': None}, V('GENERATED_UNPARSABLE', {'module': rel, 'error': str(e)},
                                                                       bucket='GENSYNTAX'))
                    continue
                try:
                    c = definitions(cur)
                except SyntaxError as e:
                    ctx.add_violation({'module': rel, 'name': None}, V('MODULE_UNPARSABLE', {'module': rel, 'error': str(e)}, bucket='SYNTAX:' + rel))
                    continue
                for defname in sorted(set(g) | set(c)):
                    case = {'module': rel, 'name': defname}

                    def fn(case, g=g, c=c, defname=defname, rel=rel):
                        vs = []
                        if defname not in c:
                            vs.append(V('DEFINITION_MISSING', {'module': rel, 'name': defname, 'generated': g[defname][0][:300]},
                                        sig=[rel, defname], bucket='DIFF:' + rel))
                        elif defname not in g:
                            vs.append(V('DEFINITION_EXTRA', {'module': rel, 'name': defname, 'checked_in': c[defname][0][:300]},
                                        sig=[rel, defname], bucket='DIFF:' + rel))
                        elif g[defname][0] != c[defname][0]:
                            x, y = g[defname][0], c[defname][0]
                            i = next((k for k in range(min(len(x), len(y))) if x[k] != y[k]), min(len(x), len(y)))
                            vs.append(V('DEFINITION_DIFFERS', {'module': rel, 'name': defname, 'first_difference_at': i,
                                                               'generated': x[max(0, i - 40):i + 80], 'checked_in': y[max(0, i - 40):i + 80]},
                                        sig=[rel, defname], bucket='DIFF:' + rel))
                        plain = (g.get(defname) or c.get(defname))[1]
                        return R(vs, nontrivial=not plain, labels=['pkg:' + pkg],
                                 obs={'source': (c.get(defname) or g.get(defname))[0][:120]}, key=[rel, defname])
                    new, r = ctx.process(case, fn=fn)
                    for v in new:
                        if ctx.stats.vcount.get(v.bucket, 0) < 3:
                            ctx.add_violation(case, v, r.obs)
                        else:
                            ctx.stats.vcount[v.bucket] += 1
        ctx.stats.extra['modules'] = nmods
        ctx.stats.extra['modules_byte_identical'] = identical
    finally:
        shutil.rmtree(scratch, ignore_errors=True)


def replay(case):
    """Replay = regenerate and compare the named definition again (or, for the second oracle, re-read the YAML)."""
    if case.get('oracle') == 'independent-yaml-reading':
        return replay_independent(case)
    scratch = os.path.join(env.VERIF, '.work', 'C18-replay-%d' % os.getpid())
    try:
        mods = resgen.generate_all(scratch)
        for pkg in mods:
            for name, (gen, cur, _) in mods[pkg].items():
                if os.path.relpath(cur, env.REPO) == case['module']:
                    g, c = definitions(gen), definitions(cur)
                    n = case['name']
                    if g.get(n, (None,))[0] != c.get(n, (None,))[0]:
                        return R([V('DEFINITION_DIFFERS', {'module': case['module'], 'name': n}, sig=[case['module'], n])], nontrivial=True)
                    return R([], nontrivial=True)
        raise env.HarnessError('module %s not in resource definitions' % case['module'])
    finally:
        shutil.rmtree(scratch, ignore_errors=True)


def run_module_coverage(ctx):
    """every module under <package>/resources/ that carries the generator's banner must be the output of a resource-definition entry
    (a module without one is never regenerated and never compared, whatever is edited into it)"""
    import glob
    import json as _json
    for pkg in resgen.PACKAGES:
        libs = os.path.join(env.LIBS, pkg)
        with open(os.path.join(libs, 'resource-definitions.json'), encoding='utf-8') as f:
            spec = _json.load(f)
        out_dir = os.path.normpath(os.path.join(libs, spec['outputPath']))
        listed = {cfg['output'] for cfg in spec['configFiles']}
        for path in sorted(glob.glob(os.path.join(out_dir, '*.py'))):
            mod = os.path.basename(path)[:-3]
            if mod == '__init__':
                continue
            with open(path, encoding='utf-8') as f:
                head = f.read(600)
            banner = '<auto-generated>' in head
            case = {'module': '%s/%s' % (pkg, mod), 'name': None, 'oracle': 'module-coverage'}

            def fn(case, banner=banner, mod=mod, listed=listed, pkg=pkg):
                vs = []
                if banner and mod not in listed:
                    vs.append(V('GENERATED_MODULE_WITHOUT_DEFINITION', {'module': case['module']}, sig=[case['module'], 'coverage'], bucket='COVERAGE'))
                return R(vs, nontrivial=banner, labels=['coverage:' + pkg], obs={'banner': banner, 'listed': mod in listed}, key=[case['module'], 'coverage'])
            new, r = ctx.process(case, fn=fn)
            for v in new:
                ctx.add_violation(case, v, r.obs)


def replay_any(case):
    if case.get('oracle') == 'module-coverage':
        import json as _json
        pkg, mod = case['module'].split('/')
        with open(os.path.join(env.LIBS, pkg, 'resource-definitions.json'), encoding='utf-8') as f:
            spec = _json.load(f)
        ok = mod in {cfg['output'] for cfg in spec['configFiles']}
        return R([] if ok else [V('GENERATED_MODULE_WITHOUT_DEFINITION', {'module': case['module']}, sig=[case['module'], 'coverage'])], nontrivial=True)
    if case.get('oracle') == 'independent-yaml-reading-after-model-build':
        build_and_use_all_models()
        return replay_independent(case)
    return replay(case)


def parts(tier, seed):
    return [custom_part('generator-differential', run, exhaustive=True, replay=replay_any),
            custom_part('independent-yaml-reading', run_independent, exhaustive=True, replay=replay_any),
            custom_part('generated-module-coverage', run_module_coverage, exhaustive=True, replay=replay_any),
            custom_part('independent-yaml-reading-after-model-build', run_independent_after_build, exhaustive=True, replay=replay_any)]


# ---- second oracle: an independent reading of the YAML, compared with the EVALUATED module values -------------------------
def _yaml_nodes(path):
    import sys
    vend = os.path.join(env.VERIF, 'vendor')
    if vend not in sys.path:
        sys.path.insert(0, vend)
    from ruamel.yaml import YAML
    with open(path, encoding='utf-8') as f:
        root = YAML(typ='safe').compose(f)
    return [(k.value, v) for k, v in root.value]


def _scalar(node):
    return node.value


def _mapping(node):
    return {k.value: v for k, v in node.value}


def _convert(text, type_):
    """YAML entry text -> Python value, by the declared entry type (string/char -> str, bool -> truthiness of the text as the generator
    writes it, anything else -> the Python literal the text denotes)"""
    if type_ in ('string', 'char'):
        return text
    if type_ == 'bool':
        return bool(text)
    return ast.literal_eval(text)


import re as _re_mod
_re_alias = _re_mod.compile(r'^from \S+ import (\w+) as (\w+)\s*$')
_CLASS_YAML = {}
_EXPECTED = {}


class UnknownResourceClass(Exception):
    """a pattern file refers to a class (BaseURL.ProtocolRegex) for which no resource-definition entry exists any more"""


def class_yaml_registry():
    import json as _json
    if _CLASS_YAML:
        return _CLASS_YAML
    for pkg in resgen.PACKAGES:
        with open(os.path.join(env.LIBS, pkg, 'resource-definitions.json'), encoding='utf-8') as f:
            spec = _json.load(f)
        for cfg in spec['configFiles']:
            parts_ = list(cfg['input'])
            parts_[-1] += '.yaml'
            cls_name = [h for h in cfg['header'] if h.startswith('class ')][0][6:].rstrip(':').strip()
            _CLASS_YAML[cls_name] = resgen._resolve_ci(os.path.join(env.REPO, 'Patterns'), parts_)
    return _CLASS_YAML


def _lookup(out, ref, yaml_path, name, aliases=None):
    if '.' in ref:
        cls, attr = ref.split('.', 1)
        cls = (aliases or {}).get(cls, cls)
        reg = class_yaml_registry()
        if cls not in reg:
            raise UnknownResourceClass('%s: reference %s of %s names a class that no resource definition produces' % (yaml_path, ref, name))
        other = expected_values(reg[cls])
        if attr not in other or other[attr][0] != 'value':
            raise env.HarnessError('%s: reference %s of %s is not a value' % (yaml_path, ref, name))
        return other[attr][1]
    if ref not in out or out[ref][0] != 'value':
        raise env.HarnessError('%s: reference %s of %s is not defined before use' % (yaml_path, ref, name))
    return out[ref][1]


def expected_values(yaml_path, aliases=None):
    """{name: ('value', v) | ('func', params, template)} computed from the YAML alone"""
    mkey = (yaml_path, tuple(sorted((aliases or {}).items())))
    if mkey in _EXPECTED:
        return _EXPECTED[mkey]
    out = {}
    _EXPECTED[mkey] = out
    for name, node in _yaml_nodes(yaml_path):
        tag = node.tag or ''
        if tag.endswith('simpleRegex'):
            out[name] = ('value', _scalar(_mapping(node)['def']))
        elif tag.endswith('nestedRegex'):
            m = _mapping(node)
            text = _scalar(m['def'])
            refs = [r.value for r in m['references'].value] if 'references' in m else []
            vals = {r: _lookup(out, r, yaml_path, name, aliases) for r in refs}
            # simultaneous substitution of the listed references only (any other brace text stays literal)
            import re as _re
            if refs:
                pat = _re.compile('|'.join(_re.escape('{%s}' % r) for r in sorted(refs, key=len, reverse=True)))
                text = pat.sub(lambda mm: str(vals[mm.group(0)[1:-1]]), text)
            out[name] = ('value', text)
        elif tag.endswith('paramsRegex'):
            m = _mapping(node)
            out[name] = ('func', [p.value for p in m['params'].value], _scalar(m['def']))
        elif tag.endswith('dictionary'):
            m = _mapping(node)
            kt, vt = [t.value for t in m['types'].value]
            d = {}
            for k, v in m['entries'].value:
                key = _convert(k.value, kt)
                if isinstance(v.value, list):
                    d[key] = [x.value for x in v.value]
                else:
                    d[key] = _convert(v.value, vt)
            out[name] = ('value', d)
        elif tag.endswith('list'):
            m = _mapping(node)
            # generator quirk (ArrayWriter): an apostrophe is written as \' inside a RAW string literal, so the backslash stays
            out[name] = ('value', [e.value.replace("'", "\\'") for e in m['entries'].value])
        elif tag.endswith('!bool'):
            out[name] = ('value', node.value == 'true')
        elif tag.endswith('char'):
            out[name] = ('value', node.value)
        elif tag.endswith(':seq'):
            out[name] = ('value', [e.value.replace("'", "\\'") for e in node.value])
        elif tag.endswith(':bool'):
            out[name] = ('value', node.value.lower() in ('true', 'yes', 'on'))
        elif tag.endswith(':int') or tag.endswith(':float') or tag.endswith(':str') or tag.endswith(':null'):
            # plain scalars are written as the STRING form of the parsed YAML value (DefaultWriter)
            if tag.endswith(':int'):
                val = str(int(node.value.replace('_', ''), 0) if not node.value.lstrip('+-').startswith('0') or node.value in ('0', '-0', '+0')
                          else int(node.value.replace('_', '')))
            elif tag.endswith(':float'):
                val = str(float(node.value.replace('_', '')))
            elif tag.endswith(':null'):
                val = 'None'
            else:
                val = node.value
            out[name] = ('value', val)
        else:
            out[name] = ('unknown', tag)
    return out


def _independent_targets():
    import importlib
    import json as _json
    for pkg in resgen.PACKAGES:
        libs = os.path.join(env.LIBS, pkg)
        with open(os.path.join(libs, 'resource-definitions.json'), encoding='utf-8') as f:
            spec = _json.load(f)
        for cfg in spec['configFiles']:
            parts_ = list(cfg['input'])
            parts_[-1] += '.yaml'
            ypath = resgen._resolve_ci(os.path.join(env.REPO, 'Patterns'), parts_)
            cls_name = [h for h in cfg['header'] if h.startswith('class ')][0][6:].rstrip(':').strip()
            mod_name = '%s.%s.%s' % (pkg.replace('-', '_'), os.path.normpath(spec['outputPath']).split(os.sep)[-1], cfg['output'])
            aliases = {}
            for h in cfg['header']:
                mm = _re_alias.match(h)
                if mm:
                    aliases[mm.group(2)] = mm.group(1)
            yield pkg, '%s/%s' % (pkg, cfg['output']), ypath, aliases, mod_name, cls_name


def replay_independent(case):
    import importlib
    for pkg, rel, ypath, aliases, mod_name, cls_name in _independent_targets():
        if rel != case['module']:
            continue
        cls = getattr(importlib.import_module(mod_name), cls_name)
        e = expected_values(ypath, aliases).get(case['name'])
        if e is None or not hasattr(cls, case['name']):
            return R([V('VALUE_MISSING', {'module': rel, 'name': case['name']}, sig=[rel, case['name'], 'value'])], nontrivial=True)
        got = getattr(cls, case['name'])
        if e[0] == 'value' and (got != e[1] or type(got) is not type(e[1])):
            return R([V('VALUE_DIFFERS_FROM_YAML', {'module': rel, 'name': case['name'], 'yaml_says': repr(e[1])[:300], 'module_has': repr(got)[:300]},
                        sig=[rel, case['name'], 'value'])], nontrivial=True)
        return R([], nontrivial=True, obs={'kind': e[0]})
    raise env.HarnessError('module %s not in resource definitions' % case['module'])


QUERIES_AFTER_BUILD = {
    'en-us': ['twenty one dollars on May 5th at 3pm, 50% of 3 km', 'call 206 555 0100 or see http://example.com #tag @me a@b.co 10.0.0.1 yes'],
    'es-es': ['veintiuno euros el 5 de mayo a las 3, 50% de 3 km'], 'es-mx': ['veintiuno pesos el 5 de mayo, 12.5%'],
    'fr-fr': ['vingt et un euros le 5 mai à 15h, 50% de 3 km'], 'pt-br': ['vinte e um reais em 5 de maio às 3, 50% de 3 km'],
    'de-de': ['einundzwanzig euro am 5. mai um 3 uhr, 50% von 3 km'], 'it-it': ['ventuno euro il 5 maggio alle 3, 50% di 3 km'],
    'nl-nl': ['eenentwintig euro op 5 mei om 3 uur, 50% van 3 km, de 1e mei'], 'zh-cn': ['二十一元 五月五日 下午三点 百分之五十 3公里'],
    'ja-jp': ['二十一円 五月五日 3キロ'],
}


def build_and_use_all_models():
    """construct every registered model of every culture and run a sentence through each (the resource objects are shared, class-level
    data: building or using a model must leave them as the YAML defines them)"""
    from gens import allmodels
    for c in allmodels.CULTURES:
        for q in QUERIES_AFTER_BUILD.get(c, []):
            allmodels.run_all(c, q)
    from recognizers_date_time import DateTimeRecognizer, DateTimeOptions
    import datetime as _dt
    for c in ('en-us', 'nl-nl', 'fr-fr', 'es-es', 'pt-br', 'de-de', 'it-it', 'zh-cn'):
        for o in (DateTimeOptions.SPLIT_DATE_AND_TIME, DateTimeOptions.CALENDAR):
            DateTimeRecognizer(c, o).get_datetime_model().parse(QUERIES_AFTER_BUILD[c][0], _dt.datetime(2016, 11, 7, 12))


def run_independent_after_build(ctx):
    build_and_use_all_models()
    return run_independent(ctx, suffix='-after-model-build')


def run_independent(ctx, suffix=''):
    import importlib
    import json as _json
    for pkg in resgen.PACKAGES:
        libs = os.path.join(env.LIBS, pkg)
        with open(os.path.join(libs, 'resource-definitions.json'), encoding='utf-8') as f:
            spec = _json.load(f)
        for cfg in spec['configFiles']:
            parts_ = list(cfg['input'])
            parts_[-1] += '.yaml'
            ypath = resgen._resolve_ci(os.path.join(env.REPO, 'Patterns'), parts_)
            cls_name = [h for h in cfg['header'] if h.startswith('class ')][0][6:].rstrip(':').strip()
            mod_name = '%s.%s.%s' % (pkg.replace('-', '_'), os.path.normpath(spec['outputPath']).split(os.sep)[-1], cfg['output'])
            rel = '%s/%s' % (pkg, cfg['output'])
            cls = getattr(importlib.import_module(mod_name), cls_name)
            aliases = {}
            for h in cfg['header']:
                mm = _re_alias.match(h)
                if mm:
                    aliases[mm.group(2)] = mm.group(1)
            try:
                exp = expected_values(ypath, aliases)
            except UnknownResourceClass as ex:
                case = {'module': rel, 'name': None, 'oracle': 'independent-yaml-reading'}
                ctx.add_violation(case, V('REFERENCE_TO_CLASS_WITHOUT_DEFINITION', {'module': rel, 'error': str(ex)}, sig=[rel, 'unknown-class'],
                                          bucket='UNKNOWN_CLASS'))
                continue
            for name, e in exp.items():
                case = {'module': rel, 'name': name, 'oracle': 'independent-yaml-reading' + suffix}

                def fn(case, name=name, e=e, cls=cls, rel=rel):
                    vs = []
                    if e[0] == 'unknown':
                        raise env.HarnessError('unhandled YAML tag %s for %s.%s' % (e[1], rel, name))
                    if not hasattr(cls, name):
                        vs.append(V('VALUE_MISSING', {'module': rel, 'name': name}, sig=[rel, name, 'value'], bucket='VALUE:' + rel))
                    else:
                        got = getattr(cls, name)
                        if e[0] == 'value':
                            if got != e[1] or type(got) is not type(e[1]):
                                vs.append(V('VALUE_DIFFERS_FROM_YAML', {'module': rel, 'name': name, 'yaml_says': repr(e[1])[:300], 'module_has': repr(got)[:300]},
                                            sig=[rel, name, 'value'], bucket='VALUE:' + rel))
                        else:
                            params, template = e[1], e[2]
                            args = ['<<%d>>' % i for i in range(len(params))]
                            want = template
                            import re as _re
                            pat = _re.compile('|'.join(_re.escape('{%s}' % p) for p in sorted(params, key=len, reverse=True)))
                            want = pat.sub(lambda mm: args[params.index(mm.group(0)[1:-1])], template)
                            try:
                                res = got(*args)
                            except Exception as ex:
                                res = 'raised %r' % ex
                            if res != want:
                                vs.append(V('FUNCTION_DIFFERS_FROM_YAML', {'module': rel, 'name': name, 'yaml_says': want[:300], 'module_gives': str(res)[:300]},
                                            sig=[rel, name, 'value'], bucket='VALUE:' + rel))
                    return R(vs, nontrivial=e[0] == 'func' or not isinstance(e[1], (str, bool, int, float)) or '{' in str(e[1]),
                             labels=['independent%s:%s' % (suffix, pkg)], obs={'kind': e[0]}, key=[rel, name, 'value' + suffix])
                new, r = ctx.process(case, fn=fn)
                for v in new:
                    if ctx.stats.vcount.get(v.bucket, 0) < 3:
                        ctx.add_violation(case, v, r.obs)
                    else:
                        ctx.stats.vcount[v.bucket] += 1
