"""C18 - generated pattern resources are faithful to the shared Patterns YAML.

Finite domain, enumerated exhaustively: every configFiles entry of the five resource-definitions.json and every
definition of the generated class.  Differential oracle: the repository's own generator (resource-generator/index.py,
run with the vendored pure-Python ruamel.yaml) against the checked-in module, definition by definition.
"""
import ast
import os
import shutil

from lib import env, resgen
from lib.engine import R, V, custom_part

ID = 'C18'
RULE = ('every definition (class attribute or helper function) of every generated resource module listed in the five '
        'resource-definitions.json files; one case per (module, definition) plus one per module header; non-trivial = definition whose '
        'value is not a plain literal constant (interpolated regex f-string, dictionary, list, function); distinct = (module, name)')
ASSUMPTIONS = ['vendor/ruamel (pure-Python ruamel.yaml 0.18.16) parses the YAML like the generator\'s pinned dependency',
               'pattern file names are resolved case-insensitively (Base-Hashtag/Base-Url), as on the file systems the generator was written for']


def definitions(path):
    """name -> (normalised source, is_plain_constant); plus '<header>' for imports/class line."""
    with open(path, encoding='utf-8') as f:
        src = f.read()
    tree = ast.parse(src)
    out = {}
    header = []
    for node in tree.body:
        if isinstance(node, ast.ClassDef):
            header.append('class ' + node.name)
            for item in node.body:
                if isinstance(item, ast.Assign):
                    for t in item.targets:
                        out[ast.unparse(t)] = (ast.unparse(item.value), isinstance(item.value, ast.Constant))
                elif isinstance(item, ast.AnnAssign):
                    out[ast.unparse(item.target)] = (ast.unparse(item.value) if item.value else '', isinstance(item.value, ast.Constant))
                elif isinstance(item, (ast.FunctionDef,)):
                    out[item.name] = (ast.unparse(item), False)
                elif isinstance(item, ast.Expr) and isinstance(item.value, ast.Constant):
                    continue
                elif isinstance(item, ast.Pass):
                    continue
                else:
                    out['<stmt@%d>' % item.lineno] = (ast.unparse(item), False)
        else:
            header.append(ast.unparse(node))
    out['<header>'] = ('\n'.join(header), True)
    return out


def run(ctx):
    scratch = os.path.join(env.VERIF, '.work', 'C18-gen-%d' % os.getpid())
    try:
        mods = resgen.generate_all(scratch)
        nmods = 0
        identical = 0
        for pkg in sorted(mods):
            for name in sorted(mods[pkg]):
                gen, cur, yaml_path = mods[pkg][name]
                nmods += 1
                rel = os.path.relpath(cur, env.REPO)
                if not os.path.exists(gen):
                    raise env.HarnessError('generator produced no output for %s' % rel)
                if not os.path.exists(cur):
                    ctx.add_violation({'module': rel, 'name': None}, V('MODULE_MISSING', {'module': rel}, bucket='MISSING:' + rel))
                    continue
                with open(gen, 'rb') as f:
                    a = f.read()
                with open(cur, 'rb') as f:
                    b = f.read()
                if a == b:
                    identical += 1
                try:
                    g = definitions(gen)
                except SyntaxError as e:
                    ctx.add_violation({'module': rel, 'name': None}, V('GENERATED_UNPARSABLE', {'module': rel, 'error': str(e)},
                                                                       bucket='GENSYNTAX'))
                    continue
                try:
                    c = definitions(cur)
                except SyntaxError as e:
                    ctx.add_violation({'module': rel, 'name': None}, V('MODULE_UNPARSABLE', {'module': rel, 'error': str(e)}, bucket='SYNTAX:' + rel))
                    continue
                for defname in sorted(set(g) | set(c)):
                    case = {'module': rel, 'name': defname}

                    def fn(case, g=g, c=c, defname=defname, rel=rel):
                        vs = []
                        if defname not in c:
                            vs.append(V('DEFINITION_MISSING', {'module': rel, 'name': defname, 'generated': g[defname][0][:300]},
                                        sig=[rel, defname], bucket='DIFF:' + rel))
                        elif defname not in g:
                            vs.append(V('DEFINITION_EXTRA', {'module': rel, 'name': defname, 'checked_in': c[defname][0][:300]},
                                        sig=[rel, defname], bucket='DIFF:' + rel))
                        elif g[defname][0] != c[defname][0]:
                            x, y = g[defname][0], c[defname][0]
                            i = next((k for k in range(min(len(x), len(y))) if x[k] != y[k]), min(len(x), len(y)))
                            vs.append(V('DEFINITION_DIFFERS', {'module': rel, 'name': defname, 'first_difference_at': i,
                                                               'generated': x[max(0, i - 40):i + 80], 'checked_in': y[max(0, i - 40):i + 80]},
                                        sig=[rel, defname], bucket='DIFF:' + rel))
                        plain = (g.get(defname) or c.get(defname))[1]
                        return R(vs, nontrivial=not plain, labels=['pkg:' + pkg],
                                 obs={'source': (c.get(defname) or g.get(defname))[0][:120]}, key=[rel, defname])
                    new, r = ctx.process(case, fn=fn)
                    for v in new:
                        if ctx.stats.vcount.get(v.bucket, 0) < 3:
                            ctx.add_violation(case, v, r.obs)
                        else:
                            ctx.stats.vcount[v.bucket] += 1
        ctx.stats.extra['modules'] = nmods
        ctx.stats.extra['modules_byte_identical'] = identical
    finally:
        shutil.rmtree(scratch, ignore_errors=True)


def replay(case):
    """Replay = regenerate and compare the named definition again."""
    scratch = os.path.join(env.VERIF, '.work', 'C18-replay-%d' % os.getpid())
    try:
        mods = resgen.generate_all(scratch)
        for pkg in mods:
            for name, (gen, cur, _) in mods[pkg].items():
                if os.path.relpath(cur, env.REPO) == case['module']:
                    g, c = definitions(gen), definitions(cur)
                    n = case['name']
                    if g.get(n, (None,))[0] != c.get(n, (None,))[0]:
                        return R([V('DEFINITION_DIFFERS', {'module': case['module'], 'name': n}, sig=[case['module'], n])], nontrivial=True)
                    return R([], nontrivial=True)
        raise env.HarnessError('module %s not in resource definitions' % case['module'])
    finally:
        shutil.rmtree(scratch, ignore_errors=True)


def parts(tier, seed):
    return [custom_part('generator-differential', run, exhaustive=True, replay=replay)]
