"""C03 - numeric literals resolve to exactly the number written, in every culture."""
from decimal import Context, Decimal, ROUND_HALF_EVEN

from hypothesis import strategies as st

from lib.engine import R, V, enum_part, hyp_part, concurrent_part

ID = 'C03'
RULE = ('digit literals written by the harness in the culture\'s own convention: integer part below 10^15 (biased to 10^k, 10^k+-1, group '
        'boundaries), 0-6 fraction digits, forms plain / grouped / decimal / grouped+decimal, optional minus sign, alone or in a carrier '
        'sentence, number model and percentage model; exhaustive part: 0..9999 plain integers per culture; non-trivial = literal with a '
        'grouping mark, a fraction or a sign; distinct = (culture, model, query); concurrent part: the same generated cases evaluated 2-4 at a time on simultaneous threads (switch interval 10 us), '
        'cases that are clean alone must stay clean')
ASSUMPTIONS = ['per-culture grouping/decimal marks are typed into the harness (en-us, es-mx, zh-cn, ja-jp: 1,234.5; es-es, fr-fr, pt-br, de-de, '
               'it-it, nl-nl: 1.234,5)', 'values are compared numerically after mapping the culture decimal mark to "."; expected value is the '
               'literal rounded to 15 significant digits (ROUND_HALF_EVEN), the precision the parser documents']

CONV = {'en-us': (',', '.'), 'es-mx': (',', '.'), 'zh-cn': (',', '.'), 'ja-jp': (',', '.'),
        'es-es': ('.', ','), 'fr-fr': ('.', ','), 'pt-br': ('.', ','), 'de-de': ('.', ','),
        'it-it': ('.', ','), 'nl-nl': ('.', ',')}
CULTURES = sorted(CONV)
C15 = Context(prec=15, rounding=ROUND_HALF_EVEN)
CARRIERS = {
    'en-us': ['{}', 'x {} y', 'the total was {} in the end', 'i will take that one , it costs {} today', 'which one is {} ?'], 'es-es': ['{}', 'x {} y', 'el total fue {} al final'],
    'es-mx': ['{}', 'x {} y', 'el total fue {} al final'], 'fr-fr': ['{}', 'x {} y', 'le total est {} maintenant'],
    'pt-br': ['{}', 'x {} y', 'o total foi {} no final'], 'de-de': ['{}', 'x {} y', 'die Summe war {} am Ende'],
    'it-it': ['{}', 'x {} y', 'il totale era {} alla fine'], 'nl-nl': ['{}', 'x {} y', 'het totaal was {} aan het eind'],
    'zh-cn': ['{}', 'x {} y', '总数是 {} 了', '我们的队伍有 {} 人', '大陆上有 {} 个'], 'ja-jp': ['{}', 'x {} y', '合計は {} です'],
}
_MODELS = {}


def models(culture):
    if culture not in _MODELS:
        from recognizers_number.number.number_recognizer import NumberRecognizer
        r = NumberRecognizer(culture)
        _MODELS[culture] = (r.get_number_model(culture, False), r.get_percentage_model(culture, False))
    return _MODELS[culture]


def group(s, mark):
    out = []
    while len(s) > 3:
        out.insert(0, s[-3:])
        s = s[:-3]
    out.insert(0, s)
    return mark.join(out)


def literal(case):
    th, dec = CONV[case['culture']]
    int_s, frac = case['int'], case['frac']
    body = group(int_s, th) if case['grouped'] else int_s
    return ('-' if case['neg'] else '') + body + (dec + frac if frac else '')


def form_of(case):
    return ('grouped' if case['grouped'] and len(case['int']) > 3 else 'plain') + ('+dec' if case['frac'] else '')


def run_case(case):
    culture = case['culture']
    th, dec = CONV[culture]
    lit = literal(case)
    pct = case.get('pct', False)
    if pct:
        lit_q = lit + '%'
    else:
        lit_q = lit
    q = case['carrier'].format(lit_q)
    lead = case.get('lead')
    if lead:
        # another literal of the same kind earlier in the sentence ('500% ; 1,500%'): both must be read independently
        q = (lead + ('%' if pct else '') + ' ; ') + q
    pos = q.rindex(lit_q)
    model = models(culture)[1 if pct else 0]
    if case.get('pre'):
        # a previous call on the same (cached) model must not influence this one: first recognise a literal written in the OTHER
        # convention (marks swapped), ignore its result, then ask the real question
        other_th, other_dec = dec, th
        model.parse(group(case['pre'][0], other_th) + other_dec + case['pre'][1])
    if case.get('thread'):
        # the property holds for any caller: every fourth case runs on a fresh (non-importing) thread
        import threading
        box = []
        t = threading.Thread(target=lambda: box.append(model.parse(q)))
        t.start()
        t.join()
        res = box[0]
    else:
        res = model.parse(q)
    got = [{'text': r.text, 'start': r.start, 'end': r.end, 'type': r.type_name, 'value': (r.resolution or {}).get('value')} for r in res]
    exp = C15.plus(Decimal(('-' if case['neg'] else '') + case['int'] + ('.' + case['frac'] if case['frac'] else '')))
    vs = []
    form = form_of(case)
    sig_class = [culture, 'pct' if pct else 'num', form, 'neg' if case['neg'] else 'pos']
    bucket = ':'.join(sig_class)
    # the entity must cover the literal; like C01 the slice may carry blanks at its two ends
    if lead:
        # keep only the entity/entities that touch the literal under test; the leading literal must have its own, disjoint entity
        others = [g for g in got if g['end'] < pos]
        if len(others) != 1 or others[0]['end'] >= pos:
            vs.append(V('LEADING_LITERAL_NOT_ONE_ENTITY', {'query': q, 'got': got}, bucket='LEAD:' + bucket))
        got = [g for g in got if g['end'] >= pos]
    one = (len(got) == 1 and got[0]['start'] <= pos and got[0]['end'] >= pos + len(lit_q) - 1 and
           q[got[0]['start']:got[0]['end'] + 1].strip() == lit_q)
    if not one:
        vs.append(V('NOT_ONE_ENTITY_OVER_LITERAL', {'query': q, 'literal': lit_q, 'expected_span': [pos, pos + len(lit_q) - 1], 'got': got},
                    bucket='SPAN:' + bucket))
    else:
        val = got[0]['value']
        ok = isinstance(val, str)
        if ok and pct:
            ok = val.endswith('%')
            val = val[:-1]
        if ok:
            allowed = set('0123456789-Ee+' + dec)
            ok = bool(val) and set(val) <= allowed and val.count(dec) <= 1 and val.count('-') <= (2 if 'E' in val.upper() else 1)
        num = None
        if ok:
            try:
                num = Decimal(val.replace(dec, '.') if dec != '.' else val)
            except Exception:
                ok = False
        if not ok:
            vs.append(V('VALUE_FORMAT', {'query': q, 'got': got[0], 'decimal_mark': dec}, bucket='FORMAT:' + bucket))
        elif num != exp:
            vs.append(V('VALUE_WRONG', {'query': q, 'expected': str(exp), 'got': got[0]}, bucket='VALUE:' + bucket))
    nt = bool(case['frac']) or (case['grouped'] and len(case['int']) > 3) or case['neg']
    return R(vs, nontrivial=nt, labels=[culture, 'pct' if pct else 'num', form, 'neg' if case['neg'] else 'pos',
                                        'alone' if case['carrier'] == '{}' else 'carrier'] + (['worker_thread'] if case.get('thread') else []) + (['after_foreign_literal'] if case.get('pre') else []),
             obs={'query': q, 'entities': got}, key=[culture, pct, q])


# ---- known-finding predicates (exact signatures; see known_findings.json) --------------------------------------------
def _nd(case):
    return len(case['int'])


def pred_de_nl_plain_decimal_4plus(case, v):
    return case['culture'] in ('de-de', 'nl-nl') and bool(case['frac']) and not (case['grouped'] and _nd(case) > 3) and _nd(case) >= 4


def pred_de_nl_negative_with_mark(case, v):
    return case['culture'] in ('de-de', 'nl-nl') and case['neg'] and (bool(case['frac']) or (case['grouped'] and _nd(case) > 3))


def pred_esmx_multi_group(case, v):
    return case['culture'] == 'es-mx' and case['grouped'] and _nd(case) > 6


def pred_cjk_pct_grouped(case, v):
    return case['culture'] in ('zh-cn', 'ja-jp') and case.get('pct') and case['grouped'] and _nd(case) > 3


def pred_ja_pct_negative(case, v):
    return case['culture'] == 'ja-jp' and case.get('pct') and case['neg']


PREDICATES = {
    'c03_de_nl_plain_decimal_4plus': pred_de_nl_plain_decimal_4plus,
    'c03_de_nl_negative_with_mark': pred_de_nl_negative_with_mark,
    'c03_esmx_multi_group': pred_esmx_multi_group,
    'c03_cjk_pct_grouped': pred_cjk_pct_grouped,
    'c03_ja_pct_negative': pred_ja_pct_negative,
}


# ---- generators ------------------------------------------------------------------------------------------------------
def int_strings():
    pow10 = [10 ** k for k in range(0, 15)]
    special = sorted({max(0, p + d) for p in pow10 for d in (-1, 0, 1)} | {999, 1000, 1001, 999999, 1000000, 10 ** 15 - 1, 123456789012345})
    return st.one_of(st.integers(0, 10 ** 15 - 1), st.sampled_from(special), st.integers(0, 9999), st.integers(1000, 10 ** 7),
                     st.integers(1, 15).flatmap(lambda nd: st.integers(10 ** (nd - 1), 10 ** nd - 1))).map(str)


def cases(culture=None):
    def mk(c, i, frac, grouped, neg, carrier_i, pct, thread, pre, lead):
        # keep the literal within 15 significant digits: beyond that the documented precision rounds it
        frac = frac[:max(0, 15 - len(i))]
        return {'culture': c, 'int': i, 'frac': frac, 'grouped': grouped, 'neg': neg, 'carrier': CARRIERS[c][carrier_i % len(CARRIERS[c])], 'pct': pct, 'thread': thread, 'pre': pre, 'lead': lead}
    frac = st.one_of(st.just(''), st.just(''), st.text('0123456789', min_size=1, max_size=6))
    return st.builds(mk, st.sampled_from(CULTURES) if culture is None else st.just(culture), int_strings(), frac, st.booleans(),
                     st.sampled_from([False, False, True]), st.integers(0, 9), st.sampled_from([False, False, True]),
                     st.sampled_from([False, False, False, True]),
                     st.one_of(st.none(), st.none(), st.none(), st.tuples(st.integers(1000, 9999999).map(str), st.text('0123456789', min_size=1, max_size=3))),
                     st.one_of(st.none(), st.none(), st.none(), st.sampled_from(['500', '7', '12'])))


def small_integers():
    for c in CULTURES:
        for n in range(10000):
            yield {'culture': c, 'int': str(n), 'frac': '', 'grouped': False, 'neg': False, 'carrier': '{}' if n % 3 else 'x {} y', 'pct': False, 'thread': False, 'pre': None, 'lead': None}


def parts(tier, seed):
    ps = []
    if tier == 'thorough':
        ps.append(enum_part('plain-0-9999', small_integers, run_case, exhaustive=True))
    for c in CULTURES:
        ps.append(hyp_part('literals-' + c, (lambda c=c: cases(c)), run_case, 1500 if tier == 'quick' else 30000, min_shard=500))
    ps.append(concurrent_part('concurrent-mixed-cultures', lambda: st.one_of([cases(c) for c in CULTURES]), run_case,
                              300 if tier == 'quick' else 6000, min_shard=50))
    return ps
