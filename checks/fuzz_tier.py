"""Coverage-guided (atheris / libFuzzer) part shared by C14 and C16: see checks/fuzz_target.py."""
import glob
import json
import os
import shutil
import subprocess

from lib import env
from lib.engine import R, V, custom_part


def atheris_part(name, which, seconds, replay):
    def run(ctx):
        work = os.path.join(env.VERIF, '.work', 'fuzz-%s-%d' % (which, os.getpid()))
        shutil.rmtree(work, ignore_errors=True)
        os.makedirs(os.path.join(work, 'corpus'))
        stats_path = os.path.join(work, 'stats.json')
        try:
            try:
                import importlib.util
                import sys
                sys.path.append(os.path.join(env.VERIF, '.deps'))
                have = importlib.util.find_spec('atheris') is not None
            except Exception:
                have = False
            if not have:
                ctx.stats.extra['atheris'] = 'skipped: atheris is not installed (setup.sh installs it into .deps from the offline wheelhouse)'
                return
            cmd = [os.path.join(env.VERIF, 'checks', 'fuzz_target.py'), which, stats_path, '-max_total_time=%d' % seconds,
                   '-seed=%d' % (ctx.seed or 1), '-artifact_prefix=' + work + os.sep, '-print_final_stats=1', os.path.join(work, 'corpus')]
            p = subprocess.run(cmd, cwd=work, stdout=subprocess.PIPE, stderr=subprocess.STDOUT, text=True,
                               env=dict(os.environ, VRF_REPO_ROOT=env.REPO))
            if not os.path.exists(stats_path):
                raise env.HarnessError('fuzz target wrote no statistics:\n' + p.stdout[-1500:])
            with open(stats_path, encoding='utf-8') as f:
                stats = json.load(f)
            crashes = glob.glob(os.path.join(work, 'crash-*'))
            ctx.stats.nt.update(stats.get('nontrivial_hashes', []))
            ctx.stats.cases += stats['valid_cases']
            ctx.stats.evals += stats['valid_cases']
            ctx.stats.labels['fuzz:executions'] = stats['executions']
            ctx.stats.labels['fuzz:valid_cases'] = stats['valid_cases']
            ctx.stats.extra['atheris'] = {'executions': stats['executions'], 'valid_cases': stats['valid_cases'],
                                          'distinct_nontrivial_in_fuzz_tier': stats['nontrivial'], 'known_finding_hits': stats['known'],
                                          'corpus_files': len(os.listdir(os.path.join(work, 'corpus'))), 'seconds': seconds,
                                          'tail': p.stdout.strip().splitlines()[-1][:200] if p.stdout.strip() else ''}
            ctx.stats.known['(fuzz tier)'] = stats['known'] if stats['known'] else 0
            if not stats['known']:
                del ctx.stats.known['(fuzz tier)']
            if stats.get('violation'):
                v = stats['violation']['violation']
                ctx.add_violation(stats['violation']['case'], V(v['kind'], v['detail'], v.get('sig'), v.get('bucket')), None, shrunk=False)
            elif crashes or p.returncode not in (0,):
                raise env.HarnessError('fuzz target stopped without a recorded violation (rc=%s):\n%s' % (p.returncode, p.stdout[-1500:]))
        finally:
            shutil.rmtree(work, ignore_errors=True)
    return custom_part(name, run, replay=replay)
